package wire

import "verif/harness/mon"

// GenNf5 builds a v5 packet with the given version and count and 24+48*min(count,45)+delta octets.
func GenNf5(g *mon.RNG, version, count int, delta int) []byte {
	h := Nf5Header{Version: uint16(version), Count: uint16(count), SysUpTime: g.U32(), UnixSecs: g.U32(), UnixNSecs: g.U32(), SeqNo: g.U32(),
		EngType: uint8(g.U32()), EngID: uint8(g.U32()), SmpInt: uint16(g.U32())}
	n := count
	if n > 45 {
		n = 45
	}
	var recs []Nf5Record
	for i := 0; i < n+2; i++ {
		recs = append(recs, Nf5Record{SrcAddr: g.U32(), DstAddr: g.U32(), NextHop: g.U32(), Input: uint16(g.U32()), Output: uint16(g.U32()),
			PktCount: g.U32(), L3Octets: g.U32(), StartTime: g.U32(), EndTime: g.U32(), SrcPort: uint16(g.U32()), DstPort: uint16(g.U32()),
			Pad1: uint8(g.U32()), TCPFlags: uint8(g.U32()), ProtType: uint8(g.U32()), Tos: uint8(g.U32()), SrcAs: uint16(g.U32()), DstAs: uint16(g.U32()),
			SrcMask: uint8(g.U32()), DstMask: uint8(g.U32()), Pad2: uint16(g.U32())})
	}
	b := EncodeNf5(h, recs)
	want := 24 + 48*n + delta
	if want < 0 {
		want = 0
	}
	for len(b) < want {
		b = append(b, g.Bytes(48)...)
	}
	return b[:want]
}
