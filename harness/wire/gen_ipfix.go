package wire

import (
	"verif/harness/mon"
)

// FlowCase is a generated exporter history for IPFIX or NetFlow v9: a few datagrams from one
// exporter, templates announced before use, with the expected decode of every datagram.
type FlowCase struct {
	Proto     string // "ipfix" | "nf9"
	Addr      []byte
	Dgrams    [][]byte
	Expect    [][][]ExpField // per datagram: expected records in wire order
	Hdr       [][]uint32     // per datagram: expected header fields
	Desc      string         // structural descriptor (for distinct counting)
	Templates []*Template
	MinRec    int // smallest minimum record length among used templates
	MaxPad    int
	SetsPer   [][]Set    // the model of every datagram (for re-encoding with perturbations)
	HdrRaw    [][]uint32 // the four free header values of every datagram
}

// EncodeFlow renders one datagram from its model.
func EncodeFlow(proto string, h []uint32, sets []Set) ([]byte, []uint32) {
	if proto == "ipfix" {
		m := Msg{ExportTime: h[0], Seq: h[1], Domain: h[2], Sets: sets}
		b := m.Encode()
		return b, []uint32{10, uint32(len(b)), h[0], h[1], h[2]}
	}
	n := uint32(0)
	for _, s := range sets {
		n += uint32(len(s.Records) + len(s.Templates))
	}
	m := Nf9Msg{Count: n & 0xffff, SysUpTime: h[0], UnixSecs: h[1], Seq: h[2], SrcID: h[3], Sets: sets}
	return m.Encode(), []uint32{9, n & 0xffff, h[0], h[1], h[2], h[3]}
}

// GenAddr produces an exporter address: 4-byte, IPv4-mapped 16-byte, or IPv6.
func GenAddr(g *mon.RNG) []byte {
	switch g.Intn(3) {
	case 0:
		return g.Bytes(4)
	case 1:
		b := make([]byte, 16)
		b[10], b[11] = 0xff, 0xff
		copy(b[12:], g.Bytes(4))
		return b
	}
	b := g.Bytes(16)
	b[0] = 0x20
	return b
}

func genIDs(g *mon.RNG, n int) []uint16 {
	seen := map[uint16]bool{}
	var out []uint16
	for len(out) < n {
		var id uint16
		switch g.Intn(6) {
		case 0:
			id = 256
		case 1:
			id = 65535
		case 2:
			id = uint16(256 + g.Intn(4))
		default:
			id = uint16(g.Range(256, 65535))
		}
		if !seen[id] {
			seen[id] = true
			out = append(out, id)
		}
	}
	return out
}

// GenFlowCase builds one well-formed history.
func GenFlowCase(g *mon.RNG, proto string, o GenOpts) *FlowCase {
	c := &FlowCase{Proto: proto, Addr: GenAddr(g)}
	if proto == "nf9" {
		o.OnlyPEN0 = true
		o.Varlen = false
	}
	nT := 1 + g.Intn(3)
	ids := genIDs(g, nT)
	for i := 0; i < nT; i++ {
		c.Templates = append(c.Templates, GenTemplate(g, ids[i], o))
	}
	tplSets := func(ts []*Template) []Set {
		var out []Set
		// group consecutive templates of the same kind into one set (sometimes one set each)
		for i := 0; i < len(ts); {
			j := i + 1
			for j < len(ts) && ts[j].Options == ts[i].Options && g.Chance(2, 3) {
				j++
			}
			k := SetTemplate
			if ts[i].Options {
				k = SetOptTemplate
			}
			s := Set{Kind: k, Templates: append([]*Template{}, ts[i:j]...)} // own copy: c.Templates changes on redefinition
			if proto == "ipfix" && g.Chance(1, 4) {
				s.Pad = g.Intn(8)
			}
			if proto == "nf9" {
				// a v9 template flowset is always 4-aligned (records are multiples of 4; options header is 6 octets)
				_, b := s.body()
				s.Pad = (4 - len(b)%4) % 4
			}
			out = append(out, s)
			i = j
		}
		return out
	}
	sameMsg := g.Chance(1, 3)
	var sets []Set
	hdr := func() []uint32 { return []uint32{uint32(g.U32()), uint32(g.U32()), uint32(g.U32()), uint32(g.U32())} }
	descPre := ""
	emit := func(sets []Set, exp [][]ExpField) {
		h := hdr()
		b, eh := EncodeFlow(proto, h, sets)
		c.Hdr = append(c.Hdr, eh)
		c.Dgrams = append(c.Dgrams, b)
		c.Expect = append(c.Expect, exp)
		c.SetsPer = append(c.SetsPer, sets)
		c.HdrRaw = append(c.HdrRaw, h)
	}
	if sameMsg {
		sets = tplSets(c.Templates)
	} else {
		ann := tplSets(c.Templates)
		if g.Chance(1, 4) {
			// the announcing message also carries a data set of a template id this exporter never announced (a
			// collector that was down for the exporter's earlier announcement sees this all the time): the decoder
			// reports it, and the templates announced next to it are announced nevertheless
			unkID := uint16(60000 + g.Intn(1000))
			for again := true; again; {
				again = false
				for _, t := range c.Templates {
					if t.ID == unkID {
						unkID, again = uint16(60000+g.Intn(1000)), true
					}
				}
			}
			unk := Set{Kind: SetRaw, SetID: unkID, RawBody: g.Bytes(8)}
			if g.Bool() {
				ann = append([]Set{unk}, ann...)
			} else {
				ann = append(ann, unk)
			}
			descPre = "|ANN+UNKNOWN"
		}
		emit(ann, nil)
	}
	nMsg := 1
	if g.Chance(1, 4) {
		nMsg = 2
	}
	c.MinRec = 1 << 30
	desc := proto + descPre
	for mi := 0; mi < nMsg; mi++ {
		budget := 1400
		if g.Chance(1, 10) {
			budget = 60000
		}
		used := 20
		for _, s := range sets {
			used += SetLen(&s)
		}
		var exp [][]ExpField
		nSets := 1 + g.Intn(4)
		for si := 0; si < nSets; si++ {
			ti := g.Intn(len(c.Templates))
			t := c.Templates[ti]
			if si > 0 && g.Chance(1, 6) {
				// the exporter redefines this template id in the middle of the message: every later set of
				// that id, in this and in later messages, uses the new definition
				nt := GenTemplate(g, t.ID, o)
				if g.Bool() {
					// the smallest possible redefinition: same elements, one length / the order / one field different
					nt, _ = MinimalVariant(g, t, o)
				}
				ts := tplSets([]*Template{nt})
				l := SetLen(&ts[0])
				if used+l < budget {
					used += l
					sets = append(sets, ts[0])
					c.Templates[ti] = nt
					t = nt
					desc += "|REDEF"
				}
			}
			k := 1 + g.Intn(4)
			if g.Chance(1, 8) {
				k = 1 + g.Intn(40)
			}
			maxPad := 7
			if proto == "nf9" {
				maxPad = 3
			}
			s := GenDataSet(g, t, k, o, maxPad)
			if proto == "nf9" && g.Chance(1, 5) {
				// RFC 3954 only says the exporter SHOULD pad a flowset to a 32-bit boundary: this one does not.
				// Whatever follows starts right after its declared length.
				s.Pad = 0
				if SetLen(&s)%4 != 0 {
					desc += "|UNALIGNED"
				}
			} else if proto == "nf9" {
				// v9: pad to a 4-octet boundary iff that padding is shorter than the minimum record;
				// otherwise add records until no padding is needed (give up by dropping the set)
				ok := false
				for try := 0; try < 8; try++ {
					s.Pad = 0
					need := (4 - (SetLen(&s) % 4)) % 4
					if need < t.MinRecLen() {
						s.Pad = need
						ok = true
						break
					}
					s.Records = append(s.Records, GenRecord(g, t, o))
				}
				if !ok {
					continue
				}
			}
			l := SetLen(&s)
			if l > 65535 || used+l > budget {
				if si == 0 && len(s.Records) > 1 {
					s.Records = s.Records[:1]
					if proto == "nf9" {
						s.Pad = 0
						need := (4 - (SetLen(&s) % 4)) % 4
						if need >= t.MinRecLen() {
							continue
						}
						s.Pad = need
					}
					l = SetLen(&s)
					if l > 65535 || used+l > 65000 {
						continue
					}
				} else {
					continue
				}
			}
			used += l
			sets = append(sets, s)
			for _, r := range s.Records {
				exp = append(exp, ExpectRecord(t, r))
			}
			if t.MinRecLen() < c.MinRec {
				c.MinRec = t.MinRecLen()
			}
			if s.Pad > c.MaxPad {
				c.MaxPad = s.Pad
			}
			desc += descSet(t, &s)
		}
		emit(sets, exp)
		sets = nil
	}
	c.Desc = desc
	return c
}

func descSet(t *Template, s *Set) string {
	d := "|"
	if t.Options {
		d += "O"
	}
	for _, f := range t.All() {
		d += f.Type[:1] + string(rune('0'+f.Len%10))
		if f.PEN != 0 {
			d += "E"
		}
		if f.Len == 65535 {
			d += "V"
		}
	}
	d += "#" + string(rune('0'+len(s.Records)%10)) + "p" + string(rune('0'+s.Pad))
	return d
}
