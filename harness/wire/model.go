// Package wire is the harness's own, independent description of the wire formats: encoders from a
// structured model to octets and the expected decoded value of every field. It shares no code with
// vflow; element types come from fixtures/iana_ipfix_snapshot.tsv.
package wire

import (
	"bufio"
	"encoding/hex"
	"fmt"
	"math"
	"net"
	"os"
	"path/filepath"
	"strconv"
	"strings"
)

// Elem is one information element of the snapshot (or a synthetic enterprise one).
type Elem struct {
	PEN  uint32
	ID   uint16
	Name string
	Type string // abstract data type name; "-" = RFC 6313 list type kept opaque
}

// TypeNames are the 20 abstract data types the decoder knows by name.
var TypeNames = []string{"unsigned8", "unsigned16", "unsigned32", "unsigned64", "signed8", "signed16", "signed32", "signed64",
	"float32", "float64", "boolean", "macAddress", "octetArray", "string", "dateTimeSeconds", "dateTimeMilliseconds",
	"dateTimeMicroseconds", "dateTimeNanoseconds", "ipv4Address", "ipv6Address"}

// TypeSize is the natural encoded size of a type; 0 = no fixed size (string, octetArray, opaque).
func TypeSize(t string) int {
	switch t {
	case "unsigned8", "signed8", "boolean":
		return 1
	case "unsigned16", "signed16":
		return 2
	case "unsigned32", "signed32", "float32", "dateTimeSeconds", "ipv4Address":
		return 4
	case "unsigned64", "signed64", "float64", "dateTimeMilliseconds", "dateTimeMicroseconds", "dateTimeNanoseconds":
		return 8
	case "macAddress":
		return 6
	case "ipv6Address":
		return 16
	}
	return 0
}

// VarLenOK says whether the 65535 marker may be used with the type.
func VarLenOK(t string) bool { return t == "string" || t == "octetArray" }

// LoadSnapshot reads the committed registry snapshot.
func LoadSnapshot(root string) ([]Elem, error) {
	f, err := os.Open(filepath.Join(root, "fixtures", "iana_ipfix_snapshot.tsv"))
	if err != nil {
		return nil, err
	}
	defer f.Close()
	var out []Elem
	sc := bufio.NewScanner(f)
	for sc.Scan() {
		l := sc.Text()
		if l == "" || l[0] == '#' {
			continue
		}
		p := strings.Split(l, "\t")
		if len(p) != 4 {
			return nil, fmt.Errorf("snapshot line %q", l)
		}
		pen, e1 := strconv.ParseUint(p[0], 10, 32)
		id, e2 := strconv.ParseUint(p[1], 10, 16)
		if e1 != nil || e2 != nil {
			return nil, fmt.Errorf("snapshot line %q", l)
		}
		out = append(out, Elem{uint32(pen), uint16(id), p[2], p[3]})
	}
	return out, sc.Err()
}

// SyntheticPEN is the enterprise number of the harness's synthetic enterprise elements.
const SyntheticPEN = 40000

// SyntheticElems returns enterprise elements covering all 20 type names (ids 1..20 under
// SyntheticPEN, and ids 101..120 under SyntheticPEN+1), to be installed through an ipfix.elements file.
func SyntheticElems() []Elem {
	var out []Elem
	for i, t := range TypeNames {
		out = append(out, Elem{SyntheticPEN, uint16(i + 1), "verif" + strings.Title(t), t})
		out = append(out, Elem{SyntheticPEN + 1, uint16(i + 101), "verifB" + strings.Title(t), t})
		// IANA-space (enterprise number 0) elements that only an installed file defines: ids far above the registry
		out = append(out, Elem{0, uint16(30001 + i), "verifIana" + strings.Title(t), t})
	}
	return out
}

// ElementsFileExtending renders a file = the shipped one (a single "0:" section) extended by elems: those with
// enterprise number 0 continue the shipped section, the others follow as sections of their own.
func ElementsFileExtending(shipped []byte, elems []Elem) []byte {
	var sb strings.Builder
	sb.Write(shipped)
	if len(shipped) > 0 && shipped[len(shipped)-1] != '\n' {
		sb.WriteByte('\n')
	}
	var rest []Elem
	for _, e := range elems {
		if e.PEN != 0 {
			rest = append(rest, e)
			continue
		}
		t := e.Type
		if t == "-" {
			t = "basicList"
		}
		fmt.Fprintf(&sb, "  %d:\n  - %s\n  - %s\n", e.ID, e.Name, t)
	}
	sb.Write(ElementsFile(rest))
	return []byte(sb.String())
}

// ElementsFile renders elements in the format of scripts/ipfix.elements.
func ElementsFile(elems []Elem) []byte {
	byPEN := map[uint32][]Elem{}
	var pens []uint32
	for _, e := range elems {
		if _, ok := byPEN[e.PEN]; !ok {
			pens = append(pens, e.PEN)
		}
		byPEN[e.PEN] = append(byPEN[e.PEN], e)
	}
	var sb strings.Builder
	for _, p := range pens {
		fmt.Fprintf(&sb, "%d:\n", p)
		for _, e := range byPEN[p] {
			t := e.Type
			if t == "-" {
				t = "basicList"
			}
			fmt.Fprintf(&sb, "  %d:\n  - %s\n  - %s\n", e.ID, e.Name, t)
		}
	}
	return []byte(sb.String())
}

// Expect is the canonical text of the value a decoder must produce for raw octets of a type
// (DESIGN.md Appendix B). Shorter than the type's size ⇒ raw octets.
func Expect(t string, raw []byte) string {
	sz := TypeSize(t)
	if sz > 0 && len(raw) < sz {
		return "bytes:" + hex.EncodeToString(raw)
	}
	be := func(n int) uint64 {
		var v uint64
		for i := 0; i < n; i++ {
			v = v<<8 | uint64(raw[i])
		}
		return v
	}
	switch t {
	case "unsigned8":
		return fmt.Sprintf("u8:%d", be(1))
	case "unsigned16":
		return fmt.Sprintf("u16:%d", be(2))
	case "unsigned32", "dateTimeSeconds":
		return fmt.Sprintf("u32:%d", be(4))
	case "unsigned64", "dateTimeMilliseconds", "dateTimeMicroseconds", "dateTimeNanoseconds":
		return fmt.Sprintf("u64:%d", be(8))
	case "signed8":
		return fmt.Sprintf("i8:%d", int8(be(1)))
	case "signed16":
		return fmt.Sprintf("i16:%d", int16(be(2)))
	case "signed32":
		return fmt.Sprintf("i32:%d", int32(be(4)))
	case "signed64":
		return fmt.Sprintf("i64:%d", int64(be(8)))
	case "float32":
		return fmt.Sprintf("f32:%08x", uint32(be(4)))
	case "float64":
		return fmt.Sprintf("f64:%016x", be(8))
	case "boolean":
		// RFC 7011 6.1.5: 1 = true, 2 = false
		return fmt.Sprintf("bool:%v", raw[0] == 1)
	case "macAddress":
		return "mac:" + hex.EncodeToString(raw)
	case "ipv4Address", "ipv6Address":
		return "ip:" + hex.EncodeToString(raw)
	case "string":
		return "str:" + hex.EncodeToString(raw)
	}
	return "bytes:" + hex.EncodeToString(raw)
}

// Canon renders a decoded Go value in the same canonical text, by its dynamic type.
func Canon(v interface{}) string {
	switch x := v.(type) {
	case uint8:
		return fmt.Sprintf("u8:%d", x)
	case uint16:
		return fmt.Sprintf("u16:%d", x)
	case uint32:
		return fmt.Sprintf("u32:%d", x)
	case uint64:
		return fmt.Sprintf("u64:%d", x)
	case int8:
		return fmt.Sprintf("i8:%d", x)
	case int16:
		return fmt.Sprintf("i16:%d", x)
	case int32:
		return fmt.Sprintf("i32:%d", x)
	case int64:
		return fmt.Sprintf("i64:%d", x)
	case float32:
		return fmt.Sprintf("f32:%08x", math.Float32bits(x))
	case float64:
		return fmt.Sprintf("f64:%016x", math.Float64bits(x))
	case bool:
		return fmt.Sprintf("bool:%v", x)
	case string:
		return "str:" + hex.EncodeToString([]byte(x))
	case net.IP:
		return "ip:" + hex.EncodeToString(x)
	case net.HardwareAddr:
		return "mac:" + hex.EncodeToString(x)
	case []byte:
		return "bytes:" + hex.EncodeToString(x)
	case nil:
		return "nil"
	}
	return fmt.Sprintf("other:%T", v)
}

// ExpField is one expected decoded field.
type ExpField struct {
	ID    uint16
	PEN   uint32
	Canon string
}

func (e ExpField) String() string { return fmt.Sprintf("{I:%d E:%d %s}", e.ID, e.PEN, e.Canon) }
