package wire

import "encoding/binary"

// Nf9Msg is one NetFlow v9 export packet. Sets reuse the IPFIX model: SetTemplate → flowset id 0,
// SetOptTemplate → flowset id 1, SetData → id = template id, SetRaw → any id. Fields never carry
// a PEN or the variable-length marker.
type Nf9Msg struct {
	Count, SysUpTime, UnixSecs, Seq, SrcID uint32
	Sets                                   []Set
}

// EncodeNf9TemplateRecord encodes one template record (RFC 3954 5.2 / 6.1).
func EncodeNf9TemplateRecord(t *Template) []byte {
	var b []byte
	b = be16(b, t.ID)
	if t.Options {
		b = be16(b, uint16(4*len(t.Scope)))
		b = be16(b, uint16(4*len(t.Fields)))
	} else {
		b = be16(b, uint16(len(t.Fields)))
	}
	for _, f := range t.Scope {
		b = be16(b, f.ID)
		b = be16(b, f.Len)
	}
	for _, f := range t.Fields {
		b = be16(b, f.ID)
		b = be16(b, f.Len)
	}
	return b
}

// Encode renders the packet.
func (m *Nf9Msg) Encode() []byte {
	b := make([]byte, 20)
	for i := range m.Sets {
		s := &m.Sets[i]
		var body []byte
		id := s.SetID
		switch s.Kind {
		case SetTemplate:
			id = 0
			for _, t := range s.Templates {
				body = append(body, EncodeNf9TemplateRecord(t)...)
			}
		case SetOptTemplate:
			id = 1
			for _, t := range s.Templates {
				body = append(body, EncodeNf9TemplateRecord(t)...)
			}
		case SetData:
			for _, r := range s.Records {
				body = append(body, EncodeRecord(s.Tpl, r)...)
			}
		case SetRaw:
			body = append(body, s.RawBody...)
		}
		body = append(body, make([]byte, s.Pad)...)
		b = be16(b, id)
		b = be16(b, uint16(4+len(body)+s.LenDelta))
		b = append(b, body...)
	}
	binary.BigEndian.PutUint16(b[0:], 9)
	binary.BigEndian.PutUint16(b[2:], uint16(m.Count))
	binary.BigEndian.PutUint32(b[4:], m.SysUpTime)
	binary.BigEndian.PutUint32(b[8:], m.UnixSecs)
	binary.BigEndian.PutUint32(b[12:], m.Seq)
	binary.BigEndian.PutUint32(b[16:], m.SrcID)
	return b
}

// ExpectedRecords mirrors Msg.ExpectedRecords.
func (m *Nf9Msg) ExpectedRecords(known func(s *Set) *Template) [][]ExpField {
	im := Msg{Sets: m.Sets}
	return im.ExpectedRecords(known)
}

// Nf5Header is the 24-octet NetFlow v5 header.
type Nf5Header struct {
	Version, Count                        uint16
	SysUpTime, UnixSecs, UnixNSecs, SeqNo uint32
	EngType, EngID                        uint8
	SmpInt                                uint16
}

// Nf5Record is one 48-octet flow record, fields in wire order.
type Nf5Record struct {
	SrcAddr, DstAddr, NextHop              uint32
	Input, Output                          uint16
	PktCount, L3Octets, StartTime, EndTime uint32
	SrcPort, DstPort                       uint16
	Pad1, TCPFlags, ProtType, Tos          uint8
	SrcAs, DstAs                           uint16
	SrcMask, DstMask                       uint8
	Pad2                                   uint16
}

// EncodeNf5 renders header + records (+ optional trailing octets are the caller's business).
func EncodeNf5(h Nf5Header, recs []Nf5Record) []byte {
	var b []byte
	b = be16(b, h.Version)
	b = be16(b, h.Count)
	b = be32(b, h.SysUpTime)
	b = be32(b, h.UnixSecs)
	b = be32(b, h.UnixNSecs)
	b = be32(b, h.SeqNo)
	b = append(b, h.EngType, h.EngID)
	b = be16(b, h.SmpInt)
	for _, r := range recs {
		b = be32(b, r.SrcAddr)
		b = be32(b, r.DstAddr)
		b = be32(b, r.NextHop)
		b = be16(b, r.Input)
		b = be16(b, r.Output)
		b = be32(b, r.PktCount)
		b = be32(b, r.L3Octets)
		b = be32(b, r.StartTime)
		b = be32(b, r.EndTime)
		b = be16(b, r.SrcPort)
		b = be16(b, r.DstPort)
		b = append(b, r.Pad1, r.TCPFlags, r.ProtType, r.Tos)
		b = be16(b, r.SrcAs)
		b = be16(b, r.DstAs)
		b = append(b, r.SrcMask, r.DstMask)
		b = be16(b, r.Pad2)
	}
	return b
}
