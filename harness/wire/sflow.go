package wire

// PktModel describes a sampled packet header (what an sFlow raw-header record carries).
type PktModel struct {
	HeaderProto uint32 // 1 Ethernet, 11 IPv4, 12 IPv6

	// Ethernet
	Dst, Src  [6]byte
	HasVlan   bool
	TCI       uint16
	EtherType uint16

	V6 bool
	// IPv4 (IHL always 5)
	TOS        uint8
	TotLen, ID uint16
	Flags3     uint8  // 3 bits: reserved, DF, MF
	FragOff    uint16 // 13 bits
	TTL        uint8
	IPProto    uint8
	IPCsum     uint16
	Src4, Dst4 [4]byte
	// IPv6
	TC         uint8
	FlowLabel  uint32 // 20 bits
	PayLen     uint16
	NextHdr    uint8
	HopLimit   uint8
	Src6, Dst6 [16]byte

	// L4: IPProto / NextHdr selects 6 TCP, 17 UDP, 1 ICMP, 58 ICMPv6
	SPort, DPort       uint16
	TCPSeq, TCPAck     uint32
	DataOff            uint8  // 4 bits
	TCPFlags           uint16 // 9 bits (NS..FIN)
	Win, L4Csum, Urg   uint16
	UDPLen             uint16
	ICMPType, ICMPCode uint8
	Rest               []byte // ICMP: everything after the checksum (≥ 1 octet); TCP/UDP: payload after the header
}

// L4Proto returns the transport protocol number.
func (p *PktModel) L4Proto() uint8 {
	if p.V6 {
		return p.NextHdr
	}
	return p.IPProto
}

// Encode renders the header octets.
func (p *PktModel) Encode() []byte {
	var b []byte
	if p.HeaderProto == 1 {
		b = append(b, p.Dst[:]...)
		b = append(b, p.Src[:]...)
		if p.HasVlan {
			b = be16(b, 0x8100)
			b = be16(b, p.TCI)
		}
		b = be16(b, p.EtherType)
	}
	if p.V6 {
		w := uint32(6)<<28 | uint32(p.TC)<<20 | p.FlowLabel&0xfffff
		b = be32(b, w)
		b = be16(b, p.PayLen)
		b = append(b, p.NextHdr, p.HopLimit)
		b = append(b, p.Src6[:]...)
		b = append(b, p.Dst6[:]...)
	} else {
		b = append(b, 0x45, p.TOS)
		b = be16(b, p.TotLen)
		b = be16(b, p.ID)
		b = be16(b, uint16(p.Flags3&7)<<13|p.FragOff&0x1fff)
		b = append(b, p.TTL, p.IPProto)
		b = be16(b, p.IPCsum)
		b = append(b, p.Src4[:]...)
		b = append(b, p.Dst4[:]...)
	}
	switch p.L4Proto() {
	case 6:
		b = be16(b, p.SPort)
		b = be16(b, p.DPort)
		b = be32(b, p.TCPSeq)
		b = be32(b, p.TCPAck)
		b = be16(b, uint16(p.DataOff&0xf)<<12|p.TCPFlags&0x1ff)
		b = be16(b, p.Win)
		b = be16(b, p.L4Csum)
		b = be16(b, p.Urg)
		b = append(b, p.Rest...)
	case 17:
		b = be16(b, p.SPort)
		b = be16(b, p.DPort)
		b = be16(b, p.UDPLen)
		b = be16(b, p.L4Csum)
		b = append(b, p.Rest...)
	case 1, 58:
		b = append(b, p.ICMPType, p.ICMPCode)
		b = be16(b, p.L4Csum)
		b = append(b, p.Rest...)
	}
	return b
}

// CounterLayout is the wire layout of one counter record: Go field name of the decoded struct and
// width in octets, in wire order (sFlow v5 specification, section 5.3 structures).
type CounterLayout struct {
	Format uint32
	Key    string // key in the decoded Records map
	Names  []string
	Widths []int
}

func lay(format uint32, key string, spec ...interface{}) CounterLayout {
	l := CounterLayout{Format: format, Key: key}
	for i := 0; i < len(spec); i += 2 {
		l.Names = append(l.Names, spec[i].(string))
		l.Widths = append(l.Widths, spec[i+1].(int))
	}
	return l
}

// CounterLayouts are the six supported counter records.
var CounterLayouts = []CounterLayout{
	lay(1, "GenInt", "Index", 4, "Type", 4, "Speed", 8, "Direction", 4, "Status", 4, "InOctets", 8, "InUnicastPackets", 4,
		"InMulticastPackets", 4, "InBroadcastPackets", 4, "InDiscards", 4, "InErrors", 4, "InUnknownProtocols", 4, "OutOctets", 8,
		"OutUnicastPackets", 4, "OutMulticastPackets", 4, "OutBroadcastPackets", 4, "OutDiscards", 4, "OutErrors", 4, "PromiscuousMode", 4),
	lay(2, "EthInt", "AlignmentErrors", 4, "FCSErrors", 4, "SingleCollisionFrames", 4, "MultipleCollisionFrames", 4, "SQETestErrors", 4,
		"DeferredTransmissions", 4, "LateCollisions", 4, "ExcessiveCollisions", 4, "InternalMACTransmitErrors", 4, "CarrierSenseErrors", 4,
		"FrameTooLongs", 4, "InternalMACReceiveErrors", 4, "SymbolErrors", 4),
	lay(3, "TRInt", "LineErrors", 4, "BurstErrors", 4, "ACErrors", 4, "AbortTransErrors", 4, "InternalErrors", 4, "LostFrameErrors", 4,
		"ReceiveCongestions", 4, "FrameCopiedErrors", 4, "TokenErrors", 4, "SoftErrors", 4, "HardErrors", 4, "SignalLoss", 4,
		"TransmitBeacons", 4, "Recoverys", 4, "LobeWires", 4, "Removes", 4, "Singles", 4, "FreqErrors", 4),
	lay(4, "VGInt", "InHighPriorityFrames", 4, "InHighPriorityOctets", 8, "InNormPriorityFrames", 4, "InNormPriorityOctets", 8,
		"InIPMErrors", 4, "InOversizeFrameErrors", 4, "InDataErrors", 4, "InNullAddressedFrames", 4, "OutHighPriorityFrames", 4,
		"OutHighPriorityOctets", 8, "TransitionIntoTrainings", 4, "HCInHighPriorityOctets", 8, "HCInNormPriorityOctets", 8,
		"HCOutHighPriorityOctets", 8),
	lay(5, "Vlan", "ID", 4, "Octets", 8, "UnicastPackets", 4, "MulticastPackets", 4, "BroadcastPackets", 4, "Discards", 4),
	lay(1001, "Proc", "CPU5s", 4, "CPU1m", 4, "CPU5m", 4, "TotalMemory", 8, "FreeMemory", 8),
}

// SFRec is one record inside a sample.
type SFRec struct {
	Format uint32 // full data-format word: enterprise<<12 | format
	Kind   string // raw | extswitch | extrouter | counter | unknown

	// raw packet header
	Pkt                *PktModel
	FrameLen, Stripped uint32
	Header             []byte // the sampled octets (Pkt.Encode() for judged cases)

	// extswitch: 4 values; counter: values in layout order
	Vals   []uint64
	Layout *CounterLayout

	// extrouter
	NextHop          []byte // 4 or 16 octets
	SrcMask, DstMask uint32

	Opaque []byte // unknown: body (multiple of 4)

	LenOverride *uint32 // hostile use only
}

func xdrPad(b []byte) []byte {
	for len(b)%4 != 0 {
		b = append(b, 0)
	}
	return b
}

func (r *SFRec) body() []byte {
	var b []byte
	switch r.Kind {
	case "raw":
		b = be32(b, r.Pkt.HeaderProto)
		b = be32(b, r.FrameLen)
		b = be32(b, r.Stripped)
		b = be32(b, uint32(len(r.Header)))
		b = append(b, r.Header...)
		b = xdrPad(b)
	case "extswitch":
		for _, v := range r.Vals {
			b = be32(b, uint32(v))
		}
	case "extrouter":
		if len(r.NextHop) == 16 {
			b = be32(b, 2)
		} else {
			b = be32(b, 1)
		}
		b = append(b, r.NextHop...)
		b = be32(b, r.SrcMask)
		b = be32(b, r.DstMask)
	case "counter":
		for i, v := range r.Vals {
			if r.Layout.Widths[i] == 8 {
				b = be64(b, v)
			} else {
				b = be32(b, uint32(v))
			}
		}
	default:
		b = append(b, r.Opaque...)
	}
	return b
}

// Encode renders the record with its format and length words.
func (r *SFRec) Encode() []byte {
	body := r.body()
	var b []byte
	b = be32(b, r.Format)
	l := uint32(len(body))
	if r.LenOverride != nil {
		l = *r.LenOverride
	}
	b = be32(b, l)
	return append(b, body...)
}

// SFSample is one sample of a datagram.
type SFSample struct {
	TypeWord uint32 // enterprise<<12 | format
	Kind     string // flow | counter | unknown

	Seq                              uint32
	SrcType                          uint8
	SrcIdx                           uint32 // 24 bits
	Rate, Pool, Drops, Input, Output uint32
	Recs                             []SFRec
	RecsNoOverride                   *uint32

	Opaque      []byte
	LenOverride *uint32
}

// Encode renders the sample with its type and length words.
func (s *SFSample) Encode() []byte {
	var body []byte
	switch s.Kind {
	case "flow":
		body = be32(body, s.Seq)
		body = be32(body, uint32(s.SrcType)<<24|s.SrcIdx&0xffffff)
		body = be32(body, s.Rate)
		body = be32(body, s.Pool)
		body = be32(body, s.Drops)
		body = be32(body, s.Input)
		body = be32(body, s.Output)
	case "counter":
		body = be32(body, s.Seq)
		body = be32(body, uint32(s.SrcType)<<24|s.SrcIdx&0xffffff)
	default:
		body = append(body, s.Opaque...)
	}
	if s.Kind == "flow" || s.Kind == "counter" {
		n := uint32(len(s.Recs))
		if s.RecsNoOverride != nil {
			n = *s.RecsNoOverride
		}
		body = be32(body, n)
		for i := range s.Recs {
			body = append(body, s.Recs[i].Encode()...)
		}
	}
	var b []byte
	b = be32(b, s.TypeWord)
	l := uint32(len(body))
	if s.LenOverride != nil {
		l = *s.LenOverride
	}
	b = be32(b, l)
	return append(b, body...)
}

// SFDatagram is one sFlow v5 datagram.
type SFDatagram struct {
	Version               uint32
	Agent                 []byte // 4 or 16 octets
	SubAgent, Seq, UpTime uint32
	Samples               []SFSample
	SamplesNoOverride     *uint32
}

// Encode renders the datagram.
func (d *SFDatagram) Encode() []byte {
	var b []byte
	b = be32(b, d.Version)
	if len(d.Agent) == 16 {
		b = be32(b, 2)
	} else {
		b = be32(b, 1)
	}
	b = append(b, d.Agent...)
	b = be32(b, d.SubAgent)
	b = be32(b, d.Seq)
	b = be32(b, d.UpTime)
	n := uint32(len(d.Samples))
	if d.SamplesNoOverride != nil {
		n = *d.SamplesNoOverride
	}
	b = be32(b, n)
	for i := range d.Samples {
		b = append(b, d.Samples[i].Encode()...)
	}
	return b
}
