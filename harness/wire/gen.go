package wire

import (
	"fmt"
	"math"

	"verif/harness/mon"
)

// GenOpts steers the template / record generators. Everything generated under these options stays
// inside the well-formedness contract of DESIGN.md Appendix A.
type GenOpts struct {
	Elems      []Elem // pool of elements (snapshot ± synthetic enterprise ones)
	MaxFields  int
	Varlen     bool // allow the 65535 marker (IPFIX only)
	Reduced    bool // allow reduced-size encodings
	Options    bool // allow options templates
	Hostile    bool // C05: nasty strings, NaN/Inf, booleans outside {1,2}
	MaxStrLen  int
	OnlyPEN0   bool // NetFlow v9
	ForceTypes []string
}

func isInt(t string) bool {
	switch t {
	case "unsigned16", "unsigned32", "unsigned64", "signed16", "signed32", "signed64":
		return true
	}
	return false
}

// GenField picks an element and a legal encoded length.
func GenField(g *mon.RNG, o GenOpts) Field {
	var e Elem
	for {
		e = o.Elems[g.Intn(len(o.Elems))]
		if o.OnlyPEN0 && e.PEN != 0 {
			continue
		}
		break
	}
	return FieldOf(g, e, o)
}

// FieldOf picks a legal encoded length for the element.
func FieldOf(g *mon.RNG, e Elem, o GenOpts) Field {
	f := Field{PEN: e.PEN, ID: e.ID, Type: e.Type}
	sz := TypeSize(e.Type)
	switch {
	case sz == 0:
		ms := o.MaxStrLen
		if ms == 0 {
			ms = 40
		}
		if o.Varlen && VarLenOK(e.Type) && g.Chance(1, 2) {
			f.Len = 65535
		} else if g.Chance(1, 12) {
			f.Len = 0
		} else {
			f.Len = uint16(g.Range(1, ms))
		}
	case o.Reduced && isInt(e.Type) && g.Chance(1, 6):
		f.Len = uint16(g.Range(1, sz-1))
	case o.Reduced && e.Type == "float64" && g.Chance(1, 6):
		f.Len = 4
	default:
		f.Len = uint16(sz)
	}
	return f
}

// GenTemplate builds a template with minimum record length ≥ 1.
func GenTemplate(g *mon.RNG, id uint16, o GenOpts) *Template {
	t := &Template{ID: id}
	max := o.MaxFields
	if max == 0 {
		max = 12
	}
	n := 1 + g.Intn(max)
	if g.Chance(1, 3) {
		n = 1 + g.Intn(3)
	}
	var fs []Field
	for i := 0; i < n; i++ {
		fs = append(fs, GenField(g, o))
	}
	for i, tn := range o.ForceTypes {
		for _, e := range o.Elems {
			if e.Type == tn && (!o.OnlyPEN0 || e.PEN == 0) {
				f := FieldOf(g, e, o)
				if i < len(fs) {
					fs[i] = f
				} else {
					fs = append(fs, f)
				}
				break
			}
		}
	}
	if o.Options && g.Chance(1, 3) {
		t.Options = true
		sc := 1 + g.Intn(len(fs))
		t.Scope = fs[:sc]
		t.Fields = fs[sc:]
	} else {
		t.Fields = fs
	}
	if t.MinRecLen() == 0 {
		// make the first field carry at least one octet
		all := t.All()
		e := Elem{PEN: all[0].PEN, ID: all[0].ID, Type: all[0].Type}
		f := Field{PEN: e.PEN, ID: e.ID, Type: e.Type, Len: uint16(g.Range(1, 8))}
		if len(t.Scope) > 0 {
			t.Scope[0] = f
		} else {
			t.Fields[0] = f
		}
	}
	return t
}

var nastyStrings = []string{`"`, `\`, `\"`, "\x00", "\x01\x02\x1f", "\x7f", "  ", "</script>", "%s%d%v%%", "%", "%!", "\n\r\t\b\f",
	"\x80", "\xff\xfe", "\xc0\xaf", "\xed\xa0\x80", "\xf4\x90\x80\x80", "é", "日本", "a\"b\\c", "{}[],:", "\\u0000", "'", "\xe2\x82"}

// GenValue produces the encoded octets of a field of n octets.
func GenValue(g *mon.RNG, t string, n int, hostile bool) []byte {
	if n == 0 {
		return []byte{}
	}
	sz := TypeSize(t)
	b := g.Bytes(n)
	if sz == 0 {
		if t == "string" {
			if hostile && g.Chance(2, 3) {
				out := make([]byte, 0, n)
				for len(out) < n {
					if g.Chance(1, 2) {
						out = append(out, nastyStrings[g.Intn(len(nastyStrings))]...)
					} else {
						out = append(out, byte(g.Range(0x20, 0x7e)))
					}
				}
				return out[:n]
			}
			if !hostile || g.Chance(1, 2) {
				for i := range b {
					b[i] = byte(g.Range(0x20, 0x7e))
					if !hostile && (b[i] == '"' || b[i] == '\\' || b[i] == '%') {
						b[i] = 'x'
					}
				}
			}
		}
		return b
	}
	if n < sz {
		return b
	}
	// boundary bias
	switch g.Intn(8) {
	case 0:
		for i := range b {
			b[i] = 0
		}
	case 1:
		for i := range b {
			b[i] = 0xff
		}
	case 2:
		for i := range b {
			b[i] = 0
		}
		b[0] = 0x80
	case 3:
		for i := range b {
			b[i] = 0xff
		}
		b[0] = 0x7f
	case 4:
		for i := range b {
			b[i] = 0
		}
		b[n-1] = 1
	}
	switch t {
	case "boolean":
		if hostile {
			b[0] = []byte{0, 1, 2, 255, 3}[g.Intn(5)]
		} else {
			b[0] = byte(1 + g.Intn(2))
		}
	case "float32":
		if hostile && g.Chance(1, 2) {
			v := []uint32{0x7fc00000, 0x7fa00000, 0xffc00001, 0x7f800000, 0xff800000, 0x80000000, 0x00000001, 0x7f7fffff, 0x00800000, 0x3f800000}[g.Intn(10)]
			b = be32(nil, v)
		}
	case "float64":
		if hostile && g.Chance(1, 2) {
			v := []uint64{0x7ff8000000000000, 0x7ff4000000000000, 0xfff8000000000001, 0x7ff0000000000000, 0xfff0000000000000,
				0x8000000000000000, 1, math.Float64bits(math.MaxFloat64), 0x0010000000000000, math.Float64bits(1.5), math.Float64bits(1e21), math.Float64bits(1e-7)}[g.Intn(12)]
			b = be64(nil, v)
		}
	}
	return b
}

// GenRecord produces one record for the template.
func GenRecord(g *mon.RNG, t *Template, o GenOpts) Record {
	var r Record
	for _, f := range t.All() {
		n := int(f.Len)
		v := Val{}
		if f.Len == 65535 {
			switch g.Intn(10) {
			case 0:
				n = 0
			case 1:
				n = 254
			case 2:
				n = 255
			case 3:
				n = 256
			case 4:
				n = g.Range(300, 1000)
			default:
				n = g.Range(1, 30)
			}
			if o.MaxStrLen > 0 && n > o.MaxStrLen {
				n = g.Range(0, o.MaxStrLen)
			}
			v.Long = g.Chance(1, 8)
		}
		v.Raw = GenValue(g, f.Type, n, o.Hostile)
		r = append(r, v)
	}
	return r
}

// GenDataSet builds a data set of k records with legal padding.
func GenDataSet(g *mon.RNG, t *Template, k int, o GenOpts, maxPad int) Set {
	s := Set{Kind: SetData, Tpl: t, SetID: t.ID}
	for i := 0; i < k; i++ {
		s.Records = append(s.Records, GenRecord(g, t, o))
	}
	mp := t.MinRecLen() - 1
	if mp > maxPad {
		mp = maxPad
	}
	if mp > 0 && g.Chance(1, 2) {
		s.Pad = g.Range(1, mp)
	}
	return s
}

// SetLen is the encoded length of a set (IPFIX).
func SetLen(s *Set) int {
	_, b := s.body()
	return 4 + len(b)
}

// MinimalVariant returns a copy of t (same id) that differs from it as little as a redefinition can: one field's
// length (a reduced-size encoding taken up or given up), two neighbouring fields swapped, one field more at the end,
// or the last field dropped. The element ids - and for most variants their order - stay what they were, so anything
// that recognises "the same template again" by less than the full definition takes it for a refresh.
func MinimalVariant(g *mon.RNG, t *Template, o GenOpts) (*Template, string) {
	n := *t
	n.Scope = append([]Field{}, t.Scope...)
	n.Fields = append([]Field{}, t.Fields...)
	at := func(i int) *Field {
		if i < len(n.Scope) {
			return &n.Scope[i]
		}
		return &n.Fields[i-len(n.Scope)]
	}
	total := len(n.Scope) + len(n.Fields)
	for try := 0; try < 12; try++ {
		switch g.Intn(4) {
		case 0:
			i := g.Intn(total)
			f := at(i)
			if sz := TypeSize(f.Type); isInt(f.Type) && sz >= 2 && f.Len != 65535 {
				nl := uint16(g.Range(1, sz))
				if nl != f.Len {
					old := f.Len
					f.Len = nl
					return &n, fmt.Sprintf("length of field %d %d -> %d", i, old, nl)
				}
			}
		case 1:
			if len(n.Fields) >= 2 {
				i := g.Intn(len(n.Fields) - 1)
				if n.Fields[i] != n.Fields[i+1] {
					n.Fields[i], n.Fields[i+1] = n.Fields[i+1], n.Fields[i]
					return &n, fmt.Sprintf("option/plain fields %d and %d swapped", i, i+1)
				}
			}
		case 2:
			if total < 40 {
				n.Fields = append(n.Fields, GenField(g, o))
				return &n, "one more field at the end"
			}
		default:
			if len(n.Fields) >= 2 {
				n.Fields = n.Fields[:len(n.Fields)-1]
				if n.MinRecLen() > 0 {
					return &n, "last field dropped"
				}
				n.Fields = append([]Field{}, t.Fields...)
			}
		}
	}
	n.Fields = append(n.Fields, GenField(g, o))
	return &n, "one more field at the end"
}
