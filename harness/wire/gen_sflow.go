package wire

import (
	"verif/harness/mon"
)

func arr4(b []byte) (a [4]byte)   { copy(a[:], b); return }
func arr6(b []byte) (a [6]byte)   { copy(a[:], b); return }
func arr16(b []byte) (a [16]byte) { copy(a[:], b); return }

// GenPkt builds a sampled packet header inside the contract of Appendix A: Ethernet (± one 802.1Q
// tag with PCP/DEI 0) | bare IPv4 | bare IPv6, IHL 5, no extension headers, TCP|UDP|ICMP(v4/v6),
// long enough for the L4 minimum.
func GenPkt(g *mon.RNG) *PktModel {
	p := &PktModel{}
	p.HeaderProto = []uint32{1, 1, 1, 11, 12}[g.Intn(5)]
	switch p.HeaderProto {
	case 1:
		p.Dst, p.Src = arr6(g.Bytes(6)), arr6(g.Bytes(6))
		p.V6 = g.Chance(1, 3)
		if g.Chance(1, 2) {
			p.HasVlan = true
			p.TCI = uint16(g.Intn(4096))
			if g.Chance(1, 5) {
				p.TCI = []uint16{0, 1, 4094, 4095}[g.Intn(4)]
			}
		}
		p.EtherType = 0x0800
		if p.V6 {
			p.EtherType = 0x86DD
		}
	case 12:
		p.V6 = true
	}
	l4 := []uint8{6, 17, 1}[g.Intn(3)]
	if p.V6 {
		if l4 == 1 {
			l4 = 58
		}
		p.TC = uint8(g.U32())
		p.FlowLabel = g.U32() & 0xfffff
		p.PayLen = uint16(g.U32())
		p.NextHdr = l4
		p.HopLimit = uint8(g.U32())
		p.Src6, p.Dst6 = arr16(g.Bytes(16)), arr16(g.Bytes(16))
		if g.Chance(1, 4) { // zero runs: exercise the canonical text form
			for i := 2; i < 14; i++ {
				p.Src6[i] = 0
			}
		}
		if g.Chance(1, 6) {
			p.Dst6 = [16]byte{0, 0, 0, 0, 0, 0, 0, 0, 0, 0, 0xff, 0xff, 10, 1, 2, 3}
		}
	} else {
		p.TOS = uint8(g.U32())
		p.TotLen = uint16(g.U32())
		p.ID = uint16(g.U32())
		p.Flags3 = uint8(g.Intn(8))
		p.FragOff = uint16(g.U32()) & 0x1fff
		if g.Chance(1, 3) {
			p.FragOff = 0
		}
		p.TTL = uint8(g.U32())
		p.IPProto = l4
		p.IPCsum = uint16(g.U32())
		p.Src4, p.Dst4 = arr4(g.Bytes(4)), arr4(g.Bytes(4))
	}
	p.SPort, p.DPort = uint16(g.U32()), uint16(g.U32())
	p.L4Csum = uint16(g.U32())
	switch l4 {
	case 6:
		p.TCPSeq, p.TCPAck = g.U32(), g.U32()
		p.DataOff = uint8(g.Intn(16))
		p.TCPFlags = uint16(g.U32()) & 0x1ff
		p.Win, p.Urg = uint16(g.U32()), uint16(g.U32())
		p.Rest = g.Bytes(g.Intn(40))
	case 17:
		p.UDPLen = uint16(g.U32())
		p.Rest = g.Bytes(g.Intn(40))
	default:
		p.ICMPType, p.ICMPCode = uint8(g.U32()), uint8(g.U32())
		p.Rest = g.Bytes(g.Range(1, 40))
	}
	if g.Chance(1, 20) {
		// stretch towards the 1500-octet cap
		hl := len(p.Encode())
		p.Rest = append(p.Rest, g.Bytes(g.Range(1400, 1500)-hl)...)
		for len(p.Encode()) > 1500 {
			p.Rest = p.Rest[:len(p.Rest)-1]
		}
	}
	return p
}

// distinctVals returns n values, all different from each other (so that swapped fields show).
func distinctVals(g *mon.RNG, widths []int) []uint64 {
	seen := map[uint64]bool{}
	out := make([]uint64, len(widths))
	for i, w := range widths {
		for {
			v := g.U64()
			if w == 4 {
				v &= 0xffffffff
			}
			if g.Chance(1, 6) {
				if w == 4 {
					v = uint64(g.U32())
				} else {
					v = []uint64{0, 1, 0xffffffff, 0x100000000, 0x7fffffffffffffff, 0x8000000000000000, 0xffffffffffffffff}[g.Intn(7)]
				}
			}
			if !seen[v] {
				seen[v] = true
				out[i] = v
				break
			}
		}
	}
	return out
}

// GenSFRecFlow generates one record for a flow sample; kind chosen by the caller.
func GenSFRecFlow(g *mon.RNG, kind string) SFRec {
	switch kind {
	case "raw":
		p := GenPkt(g)
		return SFRec{Format: 1, Kind: "raw", Pkt: p, FrameLen: g.U32(), Stripped: g.U32(), Header: p.Encode()}
	case "extswitch":
		return SFRec{Format: 1001, Kind: "extswitch", Vals: distinctVals(g, []int{4, 4, 4, 4})}
	case "extrouter":
		r := SFRec{Format: 1002, Kind: "extrouter", SrcMask: g.U32(), DstMask: g.U32()}
		if g.Bool() {
			r.NextHop = g.Bytes(4)
		} else {
			r.NextHop = g.Bytes(16)
		}
		return r
	}
	return genUnknownRec(g, []uint32{1, 1001, 1002})
}

func genUnknownRec(g *mon.RNG, supported []uint32) SFRec {
	for {
		var f uint32
		switch g.Intn(4) {
		case 0:
			f = uint32(g.Range(0, 2100))
		case 1:
			f = uint32(g.Range(1, 0xfffff))<<12 | uint32(g.Intn(4096)) // enterprise-specific
		case 2:
			f = uint32(g.Range(1, 0xfffff))<<12 | supported[g.Intn(len(supported))] // enterprise record that aliases a standard number
		default:
			f = g.U32()
		}
		ok := true
		for _, s := range supported {
			if f == s {
				ok = false
			}
		}
		if ok {
			return SFRec{Format: f, Kind: "unknown", Opaque: g.Bytes(4 * g.Intn(12))}
		}
	}
}

// GenSFSample generates one sample. kinds: flow, counter, unknown (incl. expanded 3/4 and
// enterprise-specific types when allowEnterprise).
func GenSFSample(g *mon.RNG, kind string, allowEnterprise bool) SFSample {
	s := SFSample{Kind: kind, Seq: g.U32(), SrcType: uint8(g.U32()), SrcIdx: g.U32() & 0xffffff}
	switch kind {
	case "flow":
		s.TypeWord = 1
		s.Rate, s.Pool, s.Drops, s.Input, s.Output = g.U32(), g.U32(), g.U32(), g.U32(), g.U32()
		kinds := []string{"raw", "extswitch", "extrouter"}
		// a random subset in random order, plus unknown records anywhere
		for _, i := range perm(g, 3) {
			if g.Chance(2, 3) {
				s.Recs = append(s.Recs, GenSFRecFlow(g, kinds[i]))
			}
			if g.Chance(1, 4) {
				s.Recs = append(s.Recs, GenSFRecFlow(g, "unknown"))
			}
		}
		if g.Chance(1, 5) {
			s.Recs = append([]SFRec{GenSFRecFlow(g, "unknown")}, s.Recs...)
		}
	case "counter":
		s.TypeWord = 2
		for _, i := range perm(g, len(CounterLayouts)) {
			if g.Chance(1, 2) {
				l := &CounterLayouts[i]
				s.Recs = append(s.Recs, SFRec{Format: l.Format, Kind: "counter", Layout: l, Vals: distinctVals(g, l.Widths)})
			}
			if g.Chance(1, 5) {
				s.Recs = append(s.Recs, genUnknownRec(g, []uint32{1, 2, 3, 4, 5, 1001}))
			}
		}
	default:
		for {
			switch g.Intn(4) {
			case 0:
				s.TypeWord = uint32(g.Range(3, 4)) // expanded samples: not supported by the decoder
			case 1:
				s.TypeWord = uint32(g.Range(0, 4095))
			case 2:
				if allowEnterprise {
					s.TypeWord = uint32(g.Range(1, 0xfffff))<<12 | uint32(g.Intn(5))
				} else {
					s.TypeWord = uint32(g.Range(5, 4095))
				}
			default:
				s.TypeWord = uint32(g.Range(5, 300))
			}
			if s.TypeWord != 1 && s.TypeWord != 2 && (allowEnterprise || s.TypeWord>>12 == 0) {
				break
			}
		}
		s.Opaque = g.Bytes(4 * g.Intn(30))
	}
	return s
}

func perm(g *mon.RNG, n int) []int {
	p := make([]int, n)
	for i := range p {
		p[i] = i
	}
	for i := n - 1; i > 0; i-- {
		j := g.Intn(i + 1)
		p[i], p[j] = p[j], p[i]
	}
	return p
}

// GenSFDatagram builds a well-formed datagram of 0..12 samples in any order.
func GenSFDatagram(g *mon.RNG, allowEnterprise bool) *SFDatagram {
	d := &SFDatagram{Version: 5, SubAgent: g.U32(), Seq: g.U32(), UpTime: g.U32()}
	if g.Chance(1, 3) {
		d.Agent = g.Bytes(16)
	} else {
		d.Agent = g.Bytes(4)
	}
	n := g.Intn(7)
	if g.Chance(1, 6) {
		n = g.Intn(13)
	}
	for i := 0; i < n; i++ {
		k := []string{"flow", "flow", "counter", "counter", "unknown"}[g.Intn(5)]
		d.Samples = append(d.Samples, GenSFSample(g, k, allowEnterprise))
	}
	return d
}
