package wire

import (
	"encoding/binary"
)

// Field is one field specifier of a template.
type Field struct {
	PEN  uint32
	ID   uint16
	Len  uint16 // 65535 = variable length
	Type string // abstract type of the element ("?" = not in the information model)
}

// Template is an IPFIX template or options template (also used, without PEN/varlen, for NetFlow v9).
type Template struct {
	ID      uint16
	Options bool
	Scope   []Field
	Fields  []Field
}

// All returns scope fields followed by the other fields (record order).
func (t *Template) All() []Field {
	out := make([]Field, 0, len(t.Scope)+len(t.Fields))
	out = append(out, t.Scope...)
	return append(out, t.Fields...)
}

// MinRecLen is the minimum encoded record length (a varlen field counts 1).
func (t *Template) MinRecLen() int {
	n := 0
	for _, f := range t.All() {
		if f.Len == 65535 {
			n++
		} else {
			n += int(f.Len)
		}
	}
	return n
}

// Known says whether every element is in the information model.
func (t *Template) Known() bool {
	for _, f := range t.All() {
		if f.Type == "?" {
			return false
		}
	}
	return true
}

// Val is the encoded content of one field of a record.
type Val struct {
	Raw  []byte
	Long bool // varlen only: force the 3-octet length prefix
}

// Record is one data record: one Val per template field, scope first.
type Record []Val

// Set kinds.
const (
	SetTemplate = iota
	SetOptTemplate
	SetData
	SetRaw
)

// Set is one IPFIX set / NetFlow v9 flowset.
type Set struct {
	Kind      int
	Templates []*Template // template sets
	Tpl       *Template   // data sets: the template the records were built with
	SetID     uint16      // data: template id; raw: any id
	Records   []Record
	Pad       int
	RawBody   []byte
	LenDelta  int // added to the encoded set length field (hostile use only)
}

// Msg is one IPFIX message.
type Msg struct {
	ExportTime, Seq, Domain uint32
	Sets                    []Set
}

func be16(b []byte, v uint16) []byte { return append(b, byte(v>>8), byte(v)) }
func be32(b []byte, v uint32) []byte { return append(b, byte(v>>24), byte(v>>16), byte(v>>8), byte(v)) }
func be64(b []byte, v uint64) []byte {
	return append(b, byte(v>>56), byte(v>>48), byte(v>>40), byte(v>>32), byte(v>>24), byte(v>>16), byte(v>>8), byte(v))
}

func encFieldSpec(b []byte, f Field) []byte {
	if f.PEN != 0 {
		b = be16(b, f.ID|0x8000)
		b = be16(b, f.Len)
		return be32(b, f.PEN)
	}
	b = be16(b, f.ID)
	return be16(b, f.Len)
}

// EncodeTemplateRecord encodes one IPFIX (options) template record.
func EncodeTemplateRecord(t *Template) []byte {
	var b []byte
	b = be16(b, t.ID)
	b = be16(b, uint16(len(t.Scope)+len(t.Fields)))
	if t.Options {
		b = be16(b, uint16(len(t.Scope)))
	}
	for _, f := range t.Scope {
		b = encFieldSpec(b, f)
	}
	for _, f := range t.Fields {
		b = encFieldSpec(b, f)
	}
	return b
}

// EncodeRecord encodes one data record against its template.
func EncodeRecord(t *Template, r Record) []byte {
	var b []byte
	for i, f := range t.All() {
		v := r[i]
		if f.Len == 65535 {
			if len(v.Raw) >= 255 || v.Long {
				b = append(b, 255)
				b = be16(b, uint16(len(v.Raw)))
			} else {
				b = append(b, byte(len(v.Raw)))
			}
		}
		b = append(b, v.Raw...)
	}
	return b
}

func (s *Set) body() (uint16, []byte) {
	var b []byte
	id := s.SetID
	switch s.Kind {
	case SetTemplate:
		id = 2
		for _, t := range s.Templates {
			b = append(b, EncodeTemplateRecord(t)...)
		}
	case SetOptTemplate:
		id = 3
		for _, t := range s.Templates {
			b = append(b, EncodeTemplateRecord(t)...)
		}
	case SetData:
		for _, r := range s.Records {
			b = append(b, EncodeRecord(s.Tpl, r)...)
		}
	case SetRaw:
		b = append(b, s.RawBody...)
	}
	b = append(b, make([]byte, s.Pad)...)
	return id, b
}

// Encode renders the message.
func (m *Msg) Encode() []byte {
	b := make([]byte, 16)
	for i := range m.Sets {
		id, body := m.Sets[i].body()
		b = be16(b, id)
		b = be16(b, uint16(4+len(body)+m.Sets[i].LenDelta))
		b = append(b, body...)
	}
	binary.BigEndian.PutUint16(b[0:], 10)
	binary.BigEndian.PutUint16(b[2:], uint16(len(b)))
	binary.BigEndian.PutUint32(b[4:], m.ExportTime)
	binary.BigEndian.PutUint32(b[8:], m.Seq)
	binary.BigEndian.PutUint32(b[12:], m.Domain)
	return b
}

// ExpectRecord is the expected decode of one record.
func ExpectRecord(t *Template, r Record) []ExpField {
	out := make([]ExpField, 0, len(r))
	for i, f := range t.All() {
		out = append(out, ExpField{ID: f.ID, PEN: f.PEN, Canon: Expect(f.Type, r[i].Raw)})
	}
	return out
}

// ExpectedRecords lists the expected records of every data set of the message, in wire order.
// known(set) decides whether the data set's template is in force for the exporter at that point.
func (m *Msg) ExpectedRecords(known func(s *Set) *Template) [][]ExpField {
	var out [][]ExpField
	for i := range m.Sets {
		s := &m.Sets[i]
		if s.Kind != SetData {
			continue
		}
		t := known(s)
		if t == nil || !t.Known() {
			continue
		}
		for _, r := range s.Records {
			out = append(out, ExpectRecord(t, r))
		}
	}
	return out
}
