package mon

import (
	"hash/fnv"
	"runtime"
	"sync"
)

// RNG is splitmix64: tiny, deterministic, and cheap to fork per case so that case i of a run is
// reproducible from (seed, stream name, i) alone.
type RNG struct{ s uint64 }

// NewRNG derives a stream from the run seed, a stream name and an index.
func NewRNG(seed int64, stream string, idx int) *RNG {
	h := fnv.New64a()
	h.Write([]byte(stream))
	r := &RNG{s: uint64(seed)*0x9E3779B97F4A7C15 ^ h.Sum64() ^ (uint64(idx)+1)*0xBF58476D1CE4E5B9}
	r.U64()
	return r
}

// U64 returns the next 64 random bits.
func (r *RNG) U64() uint64 {
	r.s += 0x9E3779B97F4A7C15
	z := r.s
	z = (z ^ (z >> 30)) * 0xBF58476D1CE4E5B9
	z = (z ^ (z >> 27)) * 0x94D049BB133111EB
	return z ^ (z >> 31)
}

// Intn returns a value in [0,n).
func (r *RNG) Intn(n int) int {
	if n <= 0 {
		return 0
	}
	return int(r.U64() % uint64(n))
}

// Range returns a value in [lo,hi].
func (r *RNG) Range(lo, hi int) int { return lo + r.Intn(hi-lo+1) }

// Bool is a fair coin.
func (r *RNG) Bool() bool { return r.U64()&1 == 1 }

// Chance is true with probability num/den.
func (r *RNG) Chance(num, den int) bool { return r.Intn(den) < num }

// Bytes returns n random octets.
func (r *RNG) Bytes(n int) []byte {
	b := make([]byte, n)
	for i := 0; i < n; i += 8 {
		v := r.U64()
		for j := 0; j < 8 && i+j < n; j++ {
			b[i+j] = byte(v >> (8 * j))
		}
	}
	return b
}

// U32 returns 32 random bits, biased towards boundary values one time in four.
func (r *RNG) U32() uint32 {
	if r.Intn(4) == 0 {
		b := []uint32{0, 1, 2, 0x7f, 0x80, 0xff, 0x100, 0x7fff, 0x8000, 0xffff, 0x10000, 0x7fffffff, 0x80000000, 0xfffffffe, 0xffffffff}
		return b[r.Intn(len(b))]
	}
	return uint32(r.U64())
}

// ParallelFor runs f(i) for i in [0,n) on up to GOMAXPROCS goroutines.
func ParallelFor(n int, f func(i int)) {
	w := runtime.GOMAXPROCS(0)
	if w > n {
		w = n
	}
	if w < 1 {
		w = 1
	}
	var wg sync.WaitGroup
	ch := make(chan int, 256)
	for k := 0; k < w; k++ {
		wg.Add(1)
		go func() {
			defer wg.Done()
			for i := range ch {
				f(i)
			}
		}()
	}
	for i := 0; i < n; i++ {
		ch <- i
	}
	close(ch)
	wg.Wait()
}

// Perm returns a pseudo-random permutation of 0..n-1.
func (r *RNG) Perm(n int) []int {
	p := make([]int, n)
	for i := range p {
		p[i] = i
	}
	for i := n - 1; i > 0; i-- {
		j := r.Intn(i + 1)
		p[i], p[j] = p[j], p[i]
	}
	return p
}
