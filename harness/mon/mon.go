// Package mon holds what every engine shares: tier/seed handling, the PRNG, the
// verdict discipline (violated / held on what was observed / inconclusive), replay files,
// the known-findings matcher and the evidence writer.
package mon

import (
	"crypto/sha256"
	"encoding/hex"
	"encoding/json"
	"fmt"
	"os"
	"path/filepath"
	"runtime"
	"sort"
	"strconv"
	"strings"
	"sync"
	"syscall"
	"time"
)

// Exit codes (DESIGN.md §8).
const (
	ExitHeld      = 0
	ExitViolation = 1
	ExitHarness   = 3
)

// Root returns the /verif directory (VERIF_ROOT, set by ./check).
func Root() string {
	if r := os.Getenv("VERIF_ROOT"); r != "" {
		return r
	}
	return "/verif"
}

// RepoDir returns the repository under test.
func RepoDir() string {
	if r := os.Getenv("VERIF_REPO"); r != "" {
		return r
	}
	return "/repo"
}

// Finding is one entry of known_findings.json.
type Finding struct {
	State     string `json:"state"` // "known" | "fixed"
	Property  string `json:"property"`
	Signature string `json:"signature"`
	What      string `json:"what"`
	Commit    string `json:"commit,omitempty"`
	Witness   string `json:"witness,omitempty"`
}

// Violation is one witness.
type Violation struct {
	Signature string      `json:"signature"`
	What      string      `json:"what"`
	Case      interface{} `json:"case"`
	Replay    string      `json:"replay,omitempty"`
}

// Run collects the observations of one check run.
type Run struct {
	Prop   string
	Engine string
	Tier   string
	Seed   int64
	Level  string

	mu           sync.Mutex
	start        time.Time
	evaluations  int64
	distinct     map[string]struct{}
	distinctBulk int64
	rule         string
	samples      []interface{}
	maxSamples   int
	extra        map[string]interface{}
	assumptions  []string
	exhaustive   bool

	violSeen   map[string]int // signature -> count
	violations []Violation
	knownSeen  map[string]int
	findings   []Finding
	inconcl    []string
	harnessErr []string
	counters   map[string]int64
}

// Thorough reports whether the thorough tier was requested.
func (r *Run) Thorough() bool { return r.Tier == "thorough" }

// Pick returns q in the quick tier and t in the thorough tier.
func (r *Run) Pick(q, t int) int {
	if r.Thorough() {
		return t
	}
	return q
}

// NewRun parses the common command line (--tier, --replay handled by the caller) and environment.
func NewRun(prop, engine, level string) *Run {
	r := &Run{Prop: prop, Engine: engine, Level: level, Tier: "quick", Seed: 1,
		start: time.Now(), distinct: map[string]struct{}{}, extra: map[string]interface{}{},
		violSeen: map[string]int{}, knownSeen: map[string]int{}, counters: map[string]int64{}, maxSamples: 6}
	if t := os.Getenv("VERIF_TIER"); t == "quick" || t == "thorough" {
		r.Tier = t
	}
	if s := os.Getenv("VERIF_SEED"); s != "" {
		if v, err := strconv.ParseInt(s, 10, 64); err == nil {
			r.Seed = v
		}
	}
	b, err := os.ReadFile(filepath.Join(Root(), "known_findings.json"))
	if err == nil {
		var doc struct {
			Findings []Finding `json:"findings"`
		}
		if err := json.Unmarshal(b, &doc); err != nil {
			r.HarnessError("known_findings.json does not parse: " + err.Error())
		}
		r.findings = doc.Findings
	}
	go r.watchdog()
	return r
}

// watchdog bounds every engine run: a check must end with a verdict. If it has not after a generous
// wall-clock limit (VERIF_WATCHDOG_MIN; default 12 minutes quick, 3 hours thorough) the goroutines are
// dumped, the one parked inside collector code (if any) is named, and the process exits 3 - a harness
// error, never a verdict on the property. (The code under test runs in-process in several engines; a
// change that makes a decoder wait for ever must not make the check wait for ever.)
func (r *Run) watchdog() {
	lim := 12 * time.Minute
	if r.Tier == "thorough" {
		lim = 3 * time.Hour
	}
	if v, err := strconv.Atoi(os.Getenv("VERIF_WATCHDOG_MIN")); err == nil && v > 0 {
		lim = time.Duration(v) * time.Minute
	}
	time.Sleep(lim)
	if r.Violations() > 0 {
		// the run is over time BECAUSE of what it found (every further case costs seconds): report what was found
		r.Inconclusive(fmt.Sprintf("stopped by the watchdog after %v with violations already reported; the rest of the workload was not run", lim))
		r.Finish()
	}
	buf := make([]byte, 8<<20)
	buf = buf[:runtime.Stack(buf, true)]
	dump := filepath.Join(os.Getenv("VERIF_RUN"), "watchdog-goroutines.txt")
	os.WriteFile(dump, buf, 0o644)
	parked := ""
	for _, g := range strings.Split(string(buf), "\n\n") {
		head := g
		if i := strings.IndexByte(g, '\n'); i > 0 {
			head = g[:i]
		}
		if !(strings.Contains(head, "[chan ") || strings.Contains(head, "[select") || strings.Contains(head, "[semacquire") || strings.Contains(head, "[sync.")) {
			continue
		}
		for _, l := range strings.Split(g, "\n") {
			if strings.HasPrefix(l, "github.com/EdgeCast/vflow/") {
				parked = fmt.Sprintf("; a goroutine is parked %s in %s", head[strings.IndexByte(head, '['):], strings.TrimPrefix(l, "github.com/EdgeCast/vflow/"))
				break
			}
		}
		if parked != "" {
			break
		}
	}
	fmt.Printf("HARNESS-ERROR property=%s engine=%s no verdict after %v (goroutine dump: %s)%s\n", r.Prop, r.Engine, lim, dump, parked)
	os.Exit(3)
}

// SetRule records how cases are generated and what makes one distinct and non-trivial.
func (r *Run) SetRule(s string) { r.mu.Lock(); r.rule = s; r.mu.Unlock() }

// SetExhaustive marks a finite space as completely enumerated.
func (r *Run) SetExhaustive(b bool) { r.mu.Lock(); r.exhaustive = b; r.mu.Unlock() }

// Assume records an assumption / trusted-base statement.
func (r *Run) Assume(s string) { r.mu.Lock(); r.assumptions = append(r.assumptions, s); r.mu.Unlock() }

// Eval counts n executed cases.
func (r *Run) Eval(n int) { r.mu.Lock(); r.evaluations += int64(n); r.mu.Unlock() }

// Evaluations returns the number of executed cases so far.
func (r *Run) Evaluations() int64 { r.mu.Lock(); defer r.mu.Unlock(); return r.evaluations }

// Distinct records the structural descriptor of a non-trivial case.
func (r *Run) Distinct(desc string) {
	h := sha256.Sum256([]byte(desc))
	k := string(h[:12])
	r.mu.Lock()
	r.distinct[k] = struct{}{}
	r.mu.Unlock()
}

// DistinctBulk adds n cases that are distinct by construction (an enumeration that never repeats).
func (r *Run) DistinctBulk(n int64) { r.mu.Lock(); r.distinctBulk += n; r.mu.Unlock() }

// DistinctN returns how many distinct descriptors were recorded.
func (r *Run) DistinctN() int {
	r.mu.Lock()
	defer r.mu.Unlock()
	return len(r.distinct) + int(r.distinctBulk)
}

// Sample keeps a few actual cases for the evidence file.
func (r *Run) Sample(v interface{}) {
	r.mu.Lock()
	if len(r.samples) < r.maxSamples {
		r.samples = append(r.samples, v)
	}
	r.mu.Unlock()
}

// WantSample reports whether another sample would be kept.
func (r *Run) WantSample() bool {
	r.mu.Lock()
	defer r.mu.Unlock()
	return len(r.samples) < r.maxSamples
}

// Set stores an engine-specific observation in the coverage object.
func (r *Run) Set(key string, v interface{}) { r.mu.Lock(); r.extra[key] = v; r.mu.Unlock() }

// Add increments a named counter (written into coverage.counters).
func (r *Run) Add(key string, n int64) { r.mu.Lock(); r.counters[key] += n; r.mu.Unlock() }

// Counter reads a named counter.
func (r *Run) Counter(key string) int64 { r.mu.Lock(); defer r.mu.Unlock(); return r.counters[key] }

// Max keeps the maximum of a named counter.
func (r *Run) Max(key string, n int64) {
	r.mu.Lock()
	if n > r.counters[key] {
		r.counters[key] = n
	}
	r.mu.Unlock()
}

// Inconclusive records a run fragment that decided nothing.
func (r *Run) Inconclusive(msg string) {
	r.mu.Lock()
	r.inconcl = append(r.inconcl, msg)
	n := len(r.inconcl)
	r.mu.Unlock()
	if n <= 20 {
		fmt.Printf("INCONCLUSIVE property=%s %s\n", r.Prop, msg)
	}
}

// HarnessError records a failure of the machinery itself (exit 3, never a verdict).
func (r *Run) HarnessError(msg string) {
	r.mu.Lock()
	r.harnessErr = append(r.harnessErr, msg)
	r.mu.Unlock()
	fmt.Printf("HARNESS-ERROR property=%s %s\n", r.Prop, msg)
}

// Violation records a witness. signature must be specific (panic site, structural fact), never
// "any violation". A signature listed as state=known in known_findings.json prints
// KNOWN-FINDING and does not fail the run; everything else does.
func (r *Run) Violation(signature, what string, cse interface{}) {
	r.mu.Lock()
	defer r.mu.Unlock()
	for _, f := range r.findings {
		if f.State == "known" && f.Property == r.Prop && f.Signature == signature {
			if r.knownSeen[signature] == 0 {
				fmt.Printf("KNOWN-FINDING: property=%s %s\n", r.Prop, f.What)
			}
			r.knownSeen[signature]++
			return
		}
	}
	r.violSeen[signature]++
	if r.violSeen[signature] > 1 || len(r.violations) >= 25 {
		return
	}
	v := Violation{Signature: signature, What: what, Case: cse}
	doc := map[string]interface{}{"property": r.Prop, "engine": r.Engine, "tier": r.Tier, "seed": r.Seed,
		"signature": signature, "what": what, "case": cse}
	b, _ := json.MarshalIndent(doc, "", " ")
	h := sha256.Sum256(b)
	dir := filepath.Join(Root(), "replays", r.Prop)
	os.MkdirAll(dir, 0o755)
	p := filepath.Join(dir, hex.EncodeToString(h[:8])+".json")
	if err := os.WriteFile(p, b, 0o644); err != nil {
		fmt.Printf("HARNESS-ERROR cannot write replay %s: %v\n", p, err)
	}
	v.Replay = p
	r.violations = append(r.violations, v)
	fmt.Printf("VIOLATION property=%s replay=%s\n", r.Prop, p)
	fmt.Printf("  signature: %s\n  what: %s\n", signature, trunc(what, 600))
}

// Violations returns the number of distinct unlisted violation signatures.
func (r *Run) Violations() int { r.mu.Lock(); defer r.mu.Unlock(); return len(r.violSeen) }

func trunc(s string, n int) string {
	if len(s) > n {
		return s[:n] + "…"
	}
	return s
}

// Finish writes the evidence file and exits with the verdict.
func (r *Run) Finish() {
	code := r.finish()
	os.Exit(code)
}

func (r *Run) finish() int {
	r.mu.Lock()
	defer r.mu.Unlock()
	cov := map[string]interface{}{}
	for k, v := range r.extra {
		cov[k] = v
	}
	cov["evaluations"] = r.evaluations
	cov["distinct_nontrivial"] = int64(len(r.distinct)) + r.distinctBulk
	cov["rule"] = r.rule
	if r.samples == nil {
		r.samples = []interface{}{}
	}
	cov["samples"] = r.samples
	if r.exhaustive {
		cov["exhaustive"] = true
	}
	if len(r.counters) > 0 {
		cov["counters"] = r.counters
	}
	if len(r.inconcl) > 0 {
		cov["inconclusive"] = len(r.inconcl)
		cov["inconclusive_samples"] = head(r.inconcl, 10)
	}
	if len(r.knownSeen) > 0 {
		cov["known_findings_met"] = r.knownSeen
	}
	if len(r.violSeen) > 0 {
		cov["violation_signatures"] = r.violSeen
	}
	if len(r.harnessErr) > 0 {
		cov["harness_errors"] = head(r.harnessErr, 10)
	}
	ev := map[string]interface{}{
		"property_id": r.Prop, "tier": r.Tier, "seed": r.Seed, "level": r.Level,
		"coverage": cov, "assumptions": r.assumptions,
		"wall_s":     float64(int(time.Since(r.start).Seconds()*100)) / 100,
		"violations": len(r.violSeen),
		"engine":     r.Engine,
	}
	if r.assumptions == nil {
		ev["assumptions"] = []string{}
	}
	dir := filepath.Join(Root(), "evidence")
	if os.Getenv("VERIF_EVIDENCE_APPEND") != "" {
		// a further tier of the same check (another engine run by ./check for this property): fold this
		// run's coverage into the evidence the first tier wrote
		if old, err := os.ReadFile(filepath.Join(dir, r.Prop+".json")); err == nil {
			var prev map[string]interface{}
			if json.Unmarshal(old, &prev) == nil {
				pc, _ := prev["coverage"].(map[string]interface{})
				if pc != nil {
					num := func(v interface{}) int64 {
						f, _ := v.(float64)
						return int64(f)
					}
					tiers, _ := pc["further_tiers"].(map[string]interface{})
					if tiers == nil {
						tiers = map[string]interface{}{}
					}
					tiers[r.Engine] = cov
					pc["further_tiers"] = tiers
					pc["evaluations"] = num(pc["evaluations"]) + r.evaluations
					pc["distinct_nontrivial"] = num(pc["distinct_nontrivial"]) + int64(len(r.distinct)) + r.distinctBulk
					if rule, ok := pc["rule"].(string); ok {
						pc["rule"] = rule + " || further tier " + r.Engine + ": " + r.rule
					}
					if sm, ok := pc["samples"].([]interface{}); ok && len(r.samples) > 0 {
						pc["samples"] = append(sm, r.samples[0])
					}
					prev["violations"] = num(prev["violations"]) + int64(len(r.violSeen))
					pw, _ := prev["wall_s"].(float64)
					prev["wall_s"] = pw + float64(int(time.Since(r.start).Seconds()*100))/100
					if as, ok := prev["assumptions"].([]interface{}); ok {
						for _, a := range r.assumptions {
							as = append(as, a)
						}
						prev["assumptions"] = as
					}
					ev = prev
				}
			}
		}
	}
	b, err := json.MarshalIndent(ev, "", " ")
	if err != nil {
		fmt.Printf("HARNESS-ERROR evidence does not marshal: %v\n", err)
		return ExitHarness
	}
	os.MkdirAll(dir, 0o755)
	if os.Getenv("VERIF_NO_EVIDENCE") == "" {
		if err := os.WriteFile(filepath.Join(dir, r.Prop+".json"), append(b, '\n'), 0o644); err != nil {
			fmt.Printf("HARNESS-ERROR cannot write evidence: %v\n", err)
			return ExitHarness
		}
	}
	var sigs []string
	for s, n := range r.violSeen {
		sigs = append(sigs, fmt.Sprintf("%s ×%d", s, n))
	}
	sort.Strings(sigs)
	fmt.Printf("SUMMARY property=%s tier=%s seed=%d evaluations=%d distinct=%d violations=%d known=%d inconclusive=%d wall=%.1fs\n",
		r.Prop, r.Tier, r.Seed, r.evaluations, int64(len(r.distinct))+r.distinctBulk, len(r.violSeen), len(r.knownSeen), len(r.inconcl), time.Since(r.start).Seconds())
	for _, s := range sigs {
		fmt.Println("  violated:", s)
	}
	if len(r.violSeen) > 0 {
		return ExitViolation
	}
	if len(r.harnessErr) > 0 {
		return ExitHarness
	}
	if r.evaluations == 0 || int64(len(r.distinct))+r.distinctBulk < 2 {
		fmt.Printf("HARNESS-ERROR property=%s the monitor observed nothing (evaluations=%d distinct=%d)\n", r.Prop, r.evaluations, int64(len(r.distinct))+r.distinctBulk)
		return ExitHarness
	}
	return ExitHeld
}

func head(s []string, n int) []string {
	if len(s) > n {
		return s[:n]
	}
	return s
}

// ReplayDoc is what a replay file contains.
type ReplayDoc struct {
	Property  string          `json:"property"`
	Engine    string          `json:"engine"`
	Signature string          `json:"signature"`
	What      string          `json:"what"`
	Seed      int64           `json:"seed"`
	Case      json.RawMessage `json:"case"`
}

// LoadReplay reads a replay file.
func LoadReplay(path string) (*ReplayDoc, error) {
	b, err := os.ReadFile(path)
	if err != nil {
		return nil, err
	}
	var d ReplayDoc
	if err := json.Unmarshal(b, &d); err != nil {
		return nil, err
	}
	return &d, nil
}

// Args is the tiny common command-line parser: --tier X, --replay F, --prop ID, plus free flags.
type Args struct {
	Prop   string
	Tier   string
	Replay string
	Rest   map[string]string
}

// ParseArgs parses os.Args.
func ParseArgs() Args {
	a := Args{Rest: map[string]string{}}
	av := os.Args[1:]
	for i := 0; i < len(av); i++ {
		k := strings.TrimLeft(av[i], "-")
		v := ""
		if i+1 < len(av) && !strings.HasPrefix(av[i+1], "--") {
			v = av[i+1]
			i++
		}
		switch k {
		case "prop":
			a.Prop = v
		case "tier":
			a.Tier = v
		case "replay":
			a.Replay = v
		default:
			a.Rest[k] = v
		}
	}
	if a.Tier != "" {
		os.Setenv("VERIF_TIER", a.Tier)
	}
	return a
}

// Hex is a helper for evidence samples.
func Hex(b []byte) string { return hex.EncodeToString(b) }

// UnHex decodes, panicking on malformed harness data.
func UnHex(s string) []byte {
	b, err := hex.DecodeString(s)
	if err != nil {
		panic(err)
	}
	return b
}

// ParkedInCollector scans all goroutines for one that is parked - waiting on a channel, select, lock or
// semaphore - with a collector function (github.com/EdgeCast/vflow/...) on its stack, and returns its
// state and the innermost collector frame. A goroutine that is only starved of CPU is runnable, not parked.
func ParkedInCollector() (state, site string, ok bool) {
	buf := make([]byte, 4<<20)
	buf = buf[:runtime.Stack(buf, true)]
	for _, g := range strings.Split(string(buf), "\n\n") {
		head := g
		if i := strings.IndexByte(g, '\n'); i > 0 {
			head = g[:i]
		}
		i, j := strings.IndexByte(head, '['), strings.IndexByte(head, ']')
		if i < 0 || j < i {
			continue
		}
		st := head[i+1 : j]
		base := st
		if k := strings.IndexByte(base, ','); k > 0 {
			base = base[:k]
		}
		if !(strings.HasPrefix(base, "chan ") || strings.HasPrefix(base, "select") || strings.HasPrefix(base, "semacquire") || strings.HasPrefix(base, "sync.")) {
			continue
		}
		for _, l := range strings.Split(g, "\n") {
			if strings.HasPrefix(l, "github.com/EdgeCast/vflow/") {
				f := strings.TrimPrefix(l, "github.com/EdgeCast/vflow/")
				if k := strings.LastIndex(f, "("); k > 0 {
					f = f[:k]
				}
				return st, f, true
			}
		}
	}
	return "", "", false
}

// WatchParked calls onParked once if, for `quiet` in a row, progress() has not advanced, the process has used
// next to no CPU, and ParkedInCollector finds a goroutine waiting inside collector code: work has stopped
// and will not resume by itself (a lock that is never released, a channel nobody serves).
func WatchParked(progress func() int64, quiet time.Duration, onParked func(state, site string)) {
	go func() {
		cpu := func() time.Duration {
			var ru syscall.Rusage
			syscall.Getrusage(syscall.RUSAGE_SELF, &ru)
			return time.Duration(ru.Utime.Nano() + ru.Stime.Nano())
		}
		lastP, lastC, since := progress(), cpu(), time.Now()
		for {
			time.Sleep(500 * time.Millisecond)
			p, c := progress(), cpu()
			if p != lastP || c-lastC > 150*time.Millisecond {
				lastP, lastC, since = p, c, time.Now()
				continue
			}
			if time.Since(since) >= quiet {
				if st, site, ok := ParkedInCollector(); ok {
					onParked(st, site)
					return
				}
				lastP, lastC, since = p, c, time.Now()
			}
		}
	}()
}
