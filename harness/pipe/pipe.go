package pipe

import (
	"bytes"
	"encoding/json"
	"fmt"
	"net"
	"regexp"

	"github.com/EdgeCast/vflow/ipfix"
	netflow5 "github.com/EdgeCast/vflow/netflow/v5"
	netflow9 "github.com/EdgeCast/vflow/netflow/v9"
	"github.com/EdgeCast/vflow/sflow"

	"verif/harness/mon"
	"verif/harness/wire"
)

// FedInfo is what the harness knows about one fed datagram.
type FedInfo struct {
	ID     int
	Addr   []byte
	Dgram  []byte // as the worker sees it (truncated to the buffer size)
	Key    string // identity the payload carries: agent|sequence
	Expect []byte // payload that decoding this datagram alone produces (nil = nothing to publish)
	Class  string // definite | partial | failure (decode outcome for DecodedCount)
	Kind   string // what the generator intended
	Phase  int
}

type LibCache struct {
	IC ipfix.MemCache
	NC netflow9.MemCache
}

func NewLibCache() *LibCache {
	return &LibCache{ipfix.GetCache(""), netflow9.GetCache("")}
}

var colTime = regexp.MustCompile(`"ColTime":-?\d+`)

func MaskColTime(b []byte) []byte { return colTime.ReplaceAll(b, []byte(`"ColTime":0`)) }

// Standalone computes, with the library decoders on a private cache, what the worker must publish
// for one datagram and how the datagram counts. It mirrors the statement ("what decoding that
// datagram on its own would produce"), not the worker code.
func Standalone(proto string, addr, d []byte, c *LibCache, filter []uint32) (payload []byte, class string, pn string) {
	defer func() {
		if p := recover(); p != nil {
			pn = fmt.Sprint(p)
			payload, class = nil, "failure"
		}
	}()
	ip := net.IP(append([]byte{}, addr...))
	switch proto {
	case "ipfix":
		msg, err := ipfix.NewDecoder(ip, d).Decode(c.IC)
		if msg == nil {
			return nil, "failure", ""
		}
		class = "definite"
		if err != nil {
			class = "partial"
		}
		if len(msg.DataSets) > 0 {
			b, jerr := msg.JSONMarshal(new(bytes.Buffer))
			if jerr == nil {
				payload = append([]byte{}, b...)
			}
		}
	case "nf9":
		msg, err := netflow9.NewDecoder(ip, d).Decode(c.NC)
		if msg == nil {
			return nil, "failure", ""
		}
		class = "definite"
		if err != nil {
			class = "partial"
		}
		if len(msg.DataSets) > 0 {
			b, jerr := msg.JSONMarshal(new(bytes.Buffer))
			if jerr == nil {
				payload = append([]byte{}, b...)
			}
		}
	case "nf5":
		msg, err := netflow5.NewDecoder(ip, d).Decode()
		if msg == nil {
			return nil, "failure", ""
		}
		class = "definite"
		if err != nil {
			class = "partial"
		}
		if len(msg.Flows) > 0 {
			b, jerr := msg.JSONMarshal(new(bytes.Buffer))
			if jerr == nil {
				payload = append([]byte{}, b...)
			}
		}
	case "sflow":
		dec := sflow.NewSFDecoder(bytes.NewReader(d), filter)
		dg, err := dec.SFDecode()
		if err != nil || dg == nil {
			return nil, "failure", ""
		}
		if len(dg.Samples)+len(dg.Counters) == 0 {
			return nil, "partial", "" // success without any sample: "decodes successfully" is not defined for it
		}
		class = "definite"
		b, jerr := json.Marshal(dg)
		if jerr == nil {
			payload = MaskColTime(b)
		} else {
			class = "partial"
		}
	}
	return
}

var (
	agentRe = regexp.MustCompile(`^\{"AgentID":"([^"]*)"`)
	seqRe   = map[string]*regexp.Regexp{
		"ipfix": regexp.MustCompile(`"SequenceNo":(\d+)`),
		"nf9":   regexp.MustCompile(`"SeqNum":(\d+)`),
		"nf5":   regexp.MustCompile(`"SeqNum":(\d+)`),
		"sflow": regexp.MustCompile(`"SequenceNo":(\d+)`),
	}
	sfAgentRe = regexp.MustCompile(`"IPAddress":"([^"]*)"`)
)

// PayloadKey extracts the identity (agent|sequence) a published payload carries.
func PayloadKey(proto string, b []byte) string {
	var agent string
	if proto == "sflow" {
		// {"Version":5,...,"SequenceNo":N,...,"IPAddress":"a.b.c.d",...}: the first SequenceNo is the datagram's
		if m := sfAgentRe.FindSubmatch(b); m != nil {
			agent = string(m[1])
		}
	} else if m := agentRe.FindSubmatch(b); m != nil {
		agent = string(m[1])
	}
	m := seqRe[proto].FindSubmatch(b)
	if m == nil {
		return agent + "|?"
	}
	return agent + "|" + string(m[1])
}

// Traffic builds the datagrams of a scenario. Every datagram carries a unique identity (exporter
// address + sequence number) and identity-derived field values.
type Traffic struct {
	Proto     string
	Exporters [][]byte
	Tpls      map[string][]*wire.Template
	TplDgrams map[string][]byte
	Snap      []wire.Elem
	G         *mon.RNG
	UDPSize   int
	Hostile   bool // hostile field contents (C05 pipeline tier)
	mix       bool // next Data(): add a data set of a template this exporter never announced
	fillTo    int  // next Data(): pad with an undecodable set / sample so that the datagram has exactly this many octets
	onlyTpl   int  // next Data(): 1+index of the only template to use (0 = any)
}

// DataOf is Data restricted to data sets of the exporter's template number tpl (IPFIX / NetFlow v9).
func (t *Traffic) DataOf(e []byte, id int, big bool, tpl int) []byte {
	t.onlyTpl = tpl + 1
	defer func() { t.onlyTpl = 0 }()
	return t.Data(e, id, big)
}

// DataExact is a small decodable datagram brought to exactly size octets by one filler the decoder
// skips by its declared length (IPFIX/v9: a set of a never-announced template; sFlow: a sample of an
// unknown type; v5: as many flows as fit, only when size = 24+48k). nil if that size cannot be made.
func (t *Traffic) DataExact(e []byte, id int, size int) []byte {
	if t.Proto == "nf5" {
		if size < 72 || (size-24)%48 != 0 || (size-24)/48 > 30 {
			return nil
		}
		b := wire.GenNf5(t.G, 5, (size-24)/48, 0)
		b[16], b[17], b[18], b[19] = byte(id>>24), byte(id>>16), byte(id>>8), byte(id)
		return b
	}
	t.fillTo = size
	defer func() { t.fillTo = 0 }()
	b := t.Data(e, id, false)
	if len(b) != size {
		return nil
	}
	return b
}

// DataMixed is Data with one more set: a data set of a template id the exporter never announced
// (random body, consistent length) at a random position among the decodable sets. The decodable sets
// must be decoded and published exactly as without it (IPFIX and NetFlow v9 only).
func (t *Traffic) DataMixed(e []byte, id int, big bool) []byte {
	t.mix = true
	defer func() { t.mix = false }()
	return t.Data(e, id, big)
}

// NewTraffic builds exporters (random, or the given fixed list) and their templates.
func NewTraffic(g *mon.RNG, proto string, nexp int, udpSize int, snap []wire.Elem, v4only bool, hostile bool, fixed ...[]byte) *Traffic {
	t := &Traffic{Proto: proto, Tpls: map[string][]*wire.Template{}, TplDgrams: map[string][]byte{}, Snap: snap, G: g, UDPSize: udpSize, Hostile: hostile}
	seen := map[string]bool{}
	if len(fixed) > 0 {
		t.Exporters = fixed
		nexp = len(fixed)
	}
	for len(t.Exporters) < nexp {
		var a []byte
		if v4only {
			a = g.Bytes(4)
			if g.Bool() {
				b := make([]byte, 16)
				b[10], b[11] = 0xff, 0xff
				copy(b[12:], a)
				a = b
			}
		} else {
			a = wire.GenAddr(g)
		}
		if seen[string(a)] {
			continue
		}
		seen[string(a)] = true
		t.Exporters = append(t.Exporters, a)
	}
	if proto == "ipfix" || proto == "nf9" {
		o := wire.GenOpts{Elems: snap, Varlen: proto == "ipfix", Reduced: true, Options: true, MaxFields: 8, MaxStrLen: 12}
		if hostile {
			o.ForceTypes = []string{"string", "float64", "boolean", "macAddress"}
		}
		if proto == "nf9" {
			o.OnlyPEN0, o.Varlen = true, false
		}
		for _, e := range t.Exporters {
			k := mon.Hex(e)
			var sets []wire.Set
			for i, n := 0, g.Range(1, 3); i < n; i++ {
				tp := wire.GenTemplate(g, uint16(256+i), o)
				t.Tpls[k] = append(t.Tpls[k], tp)
				kind := wire.SetTemplate
				if tp.Options {
					kind = wire.SetOptTemplate
				}
				s := wire.Set{Kind: kind, Templates: []*wire.Template{tp}}
				if proto == "nf9" {
					s.Pad = (4 - wire.SetLen(&s)%4) % 4
				}
				sets = append(sets, s)
			}
			b, _ := wire.EncodeFlow(proto, []uint32{0, 0, 0, 0}, sets)
			t.TplDgrams[k] = b
		}
	}
	return t
}

// data builds one decodable datagram with identity (exporter e, sequence id); big asks for a
// datagram close to the buffer size, otherwise a tiny one.
func (t *Traffic) Data(e []byte, id int, big bool) []byte {
	g := t.G
	switch t.Proto {
	case "ipfix", "nf9":
		o := wire.GenOpts{Elems: t.Snap, MaxStrLen: 12, Hostile: t.Hostile}
		tps := t.Tpls[mon.Hex(e)]
		var sets []wire.Set
		budget := 60
		if big {
			budget = t.UDPSize - 40
		}
		used := 24
		for len(sets) == 0 || (big && used < budget-100 && len(sets) < 40) {
			tp := tps[g.Intn(len(tps))]
			if t.onlyTpl > 0 && t.onlyTpl <= len(tps) {
				tp = tps[t.onlyTpl-1]
			}
			k := 1
			if big {
				k = g.Range(1, 8)
			}
			s := wire.GenDataSet(g, tp, k, o, 3)
			if t.Proto == "nf9" {
				for try := 0; ; try++ {
					s.Pad = 0
					need := (4 - wire.SetLen(&s)%4) % 4
					if need < tp.MinRecLen() {
						s.Pad = need
						break
					}
					s.Records = append(s.Records, wire.GenRecord(g, tp, o))
				}
			}
			l := wire.SetLen(&s)
			if used+l > t.UDPSize-4 && len(sets) > 0 {
				break
			}
			if used+l > t.UDPSize-4 {
				s.Records = s.Records[:1]
				s.Pad = 0
				if t.Proto == "nf9" {
					need := (4 - wire.SetLen(&s)%4) % 4
					if need < tp.MinRecLen() {
						s.Pad = need
					}
				}
			}
			used += wire.SetLen(&s)
			sets = append(sets, s)
		}
		if t.mix {
			u := wire.Set{Kind: wire.SetRaw, SetID: uint16(5000 + g.Intn(1000)), RawBody: g.Bytes(4 * g.Range(1, 6))}
			if used+4+len(u.RawBody) <= t.UDPSize-4 {
				at := g.Intn(len(sets) + 1)
				sets = append(append(append([]wire.Set{}, sets[:at]...), u), sets[at:]...)
			}
		}
		hdr := []uint32{g.U32(), uint32(id), g.U32(), 0}
		if t.Proto == "nf9" {
			hdr = []uint32{g.U32(), g.U32(), uint32(id), g.U32()}
		}
		b, _ := wire.EncodeFlow(t.Proto, hdr, sets)
		if fill := t.fillTo - len(b) - 4; t.fillTo > 0 && fill >= 0 && (t.Proto == "ipfix" || fill%4 == 0) {
			sets = append(sets, wire.Set{Kind: wire.SetRaw, SetID: uint16(6000 + g.Intn(1000)), RawBody: g.Bytes(fill)})
			b, _ = wire.EncodeFlow(t.Proto, hdr, sets)
		}
		return b
	case "nf5":
		cnt := 1
		if big {
			cnt = (t.UDPSize - 24) / 48
			if cnt > 30 {
				cnt = 30
			}
			if cnt < 1 {
				cnt = 1
			}
		}
		b := wire.GenNf5(g, 5, cnt, 0)
		b[16], b[17], b[18], b[19] = byte(id>>24), byte(id>>16), byte(id>>8), byte(id)
		return b
	case "sflow":
		d := &wire.SFDatagram{Version: 5, Agent: e[len(e)-4:], SubAgent: g.U32(), Seq: uint32(id), UpTime: g.U32()}
		if len(e) == 16 && !(e[10] == 0xff && e[11] == 0xff) {
			d.Agent = e
		} else if g.Chance(1, 4) {
			// the agent address is a field of the datagram, not the UDP source: an IPv6 agent behind an IPv4 exporter
			d.Agent = append([]byte{0x20, 0x01, 0x0d, 0xb8, 0, 0, 0, 0, 0, 0, 0, 1}, e[len(e)-4:]...)
		}
		if g.Chance(1, 3) {
			d.SubAgent = 0 // the usual value on single-agent devices
		}
		n := 1
		if big {
			n = 40
		}
		for i := 0; i < n; i++ {
			s := wire.GenSFSample(g, []string{"flow", "counter"}[g.Intn(2)], false)
			if len(s.Recs) == 0 {
				s.Recs = nil
			}
			d.Samples = append(d.Samples, s)
			if len(d.Encode()) > t.UDPSize-8 {
				d.Samples = d.Samples[:len(d.Samples)-1]
				break
			}
		}
		if len(d.Samples) == 0 {
			d.Samples = []wire.SFSample{{TypeWord: 2, Kind: "counter", Seq: uint32(id)}}
		}
		if fill := t.fillTo - len(d.Encode()) - 8; t.fillTo > 0 && fill >= 0 && fill%4 == 0 {
			d.Samples = append(d.Samples, wire.SFSample{TypeWord: 77, Kind: "unknown", Opaque: g.Bytes(fill)})
		}
		return d.Encode()
	}
	return nil
}

// key is the identity string the published payload of (exporter, id) must carry.
func (t *Traffic) Key(e []byte, id int, d []byte) string {
	if t.Proto == "sflow" {
		// the sFlow payload names the agent address carried in the datagram, not the UDP source
		al := 4
		if len(d) >= 8 && d[7] == 2 {
			al = 16
		}
		if len(d) >= 8+al {
			return net.IP(d[8:8+al]).String() + "|" + fmt.Sprint(id)
		}
		return "?|" + fmt.Sprint(id)
	}
	return net.IP(e).String() + "|" + fmt.Sprint(id)
}
