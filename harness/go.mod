module verif/harness

go 1.23

require (
	github.com/EdgeCast/vflow v0.0.0
	github.com/anishathalye/porcupine v1.3.0
)

require (
	golang.org/x/net v0.0.0-20201021035429-f5854403a974 // indirect
	golang.org/x/sys v0.0.0-20200930185726-fdedc70b468f // indirect
	gopkg.in/yaml.v2 v2.3.0 // indirect
)

replace github.com/EdgeCast/vflow => /repo
