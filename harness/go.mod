module verif/harness

go 1.23

require (
	github.com/EdgeCast/vflow v0.0.0
	github.com/anishathalye/porcupine v1.3.0
	github.com/nats-io/nats-server/v2 v2.1.8
	github.com/nats-io/nats.go v1.10.0
)

require (
	github.com/Shopify/sarama v1.26.3 // indirect
	github.com/davecgh/go-spew v1.1.1 // indirect
	github.com/eapache/go-resiliency v1.2.0 // indirect
	github.com/eapache/go-xerial-snappy v0.0.0-20180814174437-776d5712da21 // indirect
	github.com/eapache/queue v1.1.0 // indirect
	github.com/golang/snappy v0.0.1 // indirect
	github.com/hashicorp/go-uuid v1.0.2 // indirect
	github.com/jcmturner/gofork v1.0.0 // indirect
	github.com/klauspost/compress v1.9.8 // indirect
	github.com/nats-io/jwt v0.3.2 // indirect
	github.com/nats-io/nkeys v0.1.4 // indirect
	github.com/nats-io/nuid v1.0.1 // indirect
	github.com/nsqio/go-nsq v1.0.8 // indirect
	github.com/pierrec/lz4 v2.4.1+incompatible // indirect
	github.com/rcrowley/go-metrics v0.0.0-20190826022208-cac0b30c2563 // indirect
	github.com/segmentio/kafka-go v0.4.7 // indirect
	golang.org/x/crypto v0.0.0-20200622213623-75b288015ac9 // indirect
	golang.org/x/net v0.0.0-20201021035429-f5854403a974 // indirect
	golang.org/x/sys v0.0.0-20200930185726-fdedc70b468f // indirect
	gopkg.in/jcmturner/aescts.v1 v1.0.1 // indirect
	gopkg.in/jcmturner/dnsutils.v1 v1.0.1 // indirect
	gopkg.in/jcmturner/gokrb5.v7 v7.5.0 // indirect
	gopkg.in/jcmturner/rpc.v1 v1.1.0 // indirect
	gopkg.in/yaml.v2 v2.3.0 // indirect
)

replace github.com/EdgeCast/vflow => /repo
