// modelcheck decides C20: the built-in information model, the shipped elements file and the
// registry snapshot agree entry for entry, and decoding does not depend on whether the file is
// installed. The space (≈400 elements × legal lengths) is finite and enumerated completely.
package main

import (
	"bufio"
	"fmt"
	"net"
	"os"
	"path/filepath"
	"sort"
	"strconv"
	"strings"

	"github.com/EdgeCast/vflow/ipfix"

	"verif/harness/mon"
	"verif/harness/wire"
)

type entry struct {
	FieldID uint16
	Name    string
	Type    int
}

func dump() map[[2]uint32]entry {
	out := map[[2]uint32]entry{}
	for k, v := range ipfix.InfoModel {
		out[[2]uint32{k.EnterpriseNo, uint32(k.ElementID)}] = entry{v.FieldID, v.Name, int(v.Type)}
	}
	return out
}

// parseElementsFile is an independent line parser for the shipped file's simple YAML shape:
// "<pen>:" / "  <id>:" / "  - <name>" / "  - <type>".
func parseElementsFile(path string) (map[[2]uint32][]string, []string, error) {
	f, err := os.Open(path)
	if err != nil {
		return nil, nil, err
	}
	defer f.Close()
	out := map[[2]uint32][]string{}
	var problems []string
	var pen, id uint32
	havePen, haveID := false, false
	sc := bufio.NewScanner(f)
	ln := 0
	for sc.Scan() {
		ln++
		l := sc.Text()
		t := strings.TrimSpace(l)
		if t == "" || strings.HasPrefix(t, "#") {
			continue
		}
		switch {
		case !strings.HasPrefix(l, " ") && strings.HasSuffix(t, ":"):
			v, err := strconv.ParseUint(strings.TrimSuffix(t, ":"), 10, 32)
			if err != nil {
				problems = append(problems, fmt.Sprintf("line %d: enterprise %q", ln, t))
				continue
			}
			pen, havePen, haveID = uint32(v), true, false
		case strings.HasPrefix(t, "- "):
			if !haveID {
				problems = append(problems, fmt.Sprintf("line %d: property without element", ln))
				continue
			}
			k := [2]uint32{pen, id}
			out[k] = append(out[k], strings.TrimSpace(strings.TrimPrefix(t, "- ")))
		case strings.HasSuffix(t, ":"):
			v, err := strconv.ParseUint(strings.TrimSuffix(t, ":"), 10, 16)
			if err != nil || !havePen {
				problems = append(problems, fmt.Sprintf("line %d: element id %q", ln, t))
				continue
			}
			id, haveID = uint32(v), true
			k := [2]uint32{pen, id}
			if _, dup := out[k]; dup {
				problems = append(problems, fmt.Sprintf("line %d: element %d/%d defined twice", ln, pen, id))
			}
			out[k] = []string{}
		default:
			problems = append(problems, fmt.Sprintf("line %d: unrecognised %q", ln, l))
		}
	}
	return out, problems, sc.Err()
}

var typeNo = map[string]int{}

func main() {
	args := mon.ParseArgs()
	_ = args
	run := mon.NewRun("C20", "modelcheck", "exploration")
	for name, t := range ipfix.FieldTypes {
		typeNo[name] = int(t)
	}
	listNames := map[string]bool{"basicList": true, "subTemplateList": true, "subTemplateMultiList": true}
	snap, err := wire.LoadSnapshot(mon.Root())
	if err != nil {
		run.HarnessError(err.Error())
		run.Finish()
	}
	v := func(sig, what string, c interface{}) { run.Violation("model:"+sig, what, c) }

	// (a) as built
	builtin := dump()
	orig := ipfix.InfoModel
	decodeAll := func() map[string]string {
		// behavioural differential: every element × every legal length, one-field record, fixed contents
		out := map[string]string{}
		for _, e := range snap {
			sz := wire.TypeSize(e.Type)
			lens := []int{1, 2, 3, 4, 5, 6, 7, 8, 16, 17, 33}
			if sz > 0 {
				lens = nil
				for l := 1; l <= sz; l++ {
					lens = append(lens, l)
				}
			}
			// encodings: fixed length; for the types that may be variable-length also the 65535 marker with the short
			// and the 3-octet length prefix (how a field is delimited is decided from the element's model entry)
			encs := []int{0}
			if wire.VarLenOK(e.Type) {
				encs = []int{0, 1, 2}
			}
			for _, l := range lens {
				for _, enc := range encs {
					for _, fill := range []byte{0x00, 0x01, 0x02, 0x7f, 0x80, 0xff} {
						t := &wire.Template{ID: 300, Fields: []wire.Field{{PEN: e.PEN, ID: e.ID, Len: uint16(l), Type: e.Type}}}
						raw := make([]byte, l)
						for i := range raw {
							raw[i] = fill + byte(i)
						}
						val := wire.Val{Raw: raw}
						if enc > 0 {
							t.Fields[0].Len = 65535
							val.Long = enc == 2
						}
						m1 := wire.Msg{Sets: []wire.Set{{Kind: wire.SetTemplate, Templates: []*wire.Template{t}}}}
						m2 := wire.Msg{Sets: []wire.Set{{Kind: wire.SetData, Tpl: t, SetID: 300, Records: []wire.Record{{val}}}}}
						cache := ipfix.GetCache("")
						ip := net.IP{10, 0, 0, 1}
						ipfix.NewDecoder(ip, m1.Encode()).Decode(cache)
						key := fmt.Sprintf("%d/%d len %d fill %02x%s", e.PEN, e.ID, l, fill, []string{"", " variable-length", " variable-length (3-octet prefix)"}[enc])
						func() {
							defer func() {
								if p := recover(); p != nil {
									out[key] = fmt.Sprint("panic: ", p)
								}
							}()
							msg, err := ipfix.NewDecoder(ip, m2.Encode()).Decode(cache)
							if msg == nil || len(msg.DataSets) != 1 || len(msg.DataSets[0]) != 1 {
								out[key] = fmt.Sprintf("no single record (err %v)", err)
								return
							}
							f := msg.DataSets[0][0]
							out[key] = fmt.Sprintf("I:%d E:%d %s", f.ID, f.EnterpriseNo, wire.Canon(f.Value))
							want := fmt.Sprintf("I:%d E:%d %s", e.ID, e.PEN, wire.Expect(e.Type, raw))
							run.Eval(1)
							if out[key] != want {
								v("decode-vs-snapshot", fmt.Sprintf("element %s decoded as %s, snapshot type %s expects %s", key, out[key], e.Type, want), map[string]interface{}{"element": key, "type": e.Type})
							}
						}()
					}
				}
			}
		}
		return out
	}
	decA := decodeAll()

	// (b) load path with no file present
	empty := filepath.Join(os.Getenv("VERIF_RUN"), "nofile")
	os.MkdirAll(empty, 0o755)
	if err := ipfix.LoadExtElements(empty); err != nil {
		v("load-absent-error", "LoadExtElements on a directory without the file: "+err.Error(), nil)
	}
	absent := dump()
	// (c) shipped file
	shippedDir := filepath.Join(mon.RepoDir(), "scripts")
	if err := ipfix.LoadExtElements(shippedDir); err != nil {
		v("load-shipped-error", "LoadExtElements(scripts): "+err.Error(), nil)
	}
	shipped := dump()
	decC := decodeAll()
	ipfix.InfoModel = orig

	file, problems, err := parseElementsFile(filepath.Join(shippedDir, "ipfix.elements"))
	if err != nil {
		run.HarnessError(err.Error())
		run.Finish()
	}
	for _, p := range problems {
		v("file-syntax", "scripts/ipfix.elements: "+p, p)
	}

	keys := func(m map[[2]uint32]entry) []string {
		var out []string
		for k := range m {
			out = append(out, fmt.Sprintf("%d/%d", k[0], k[1]))
		}
		sort.Strings(out)
		return out
	}
	cmp := func(an, bn string, a, b map[[2]uint32]entry) {
		for k, ea := range a {
			run.Eval(1)
			eb, ok := b[k]
			if !ok {
				v("missing:"+bn, fmt.Sprintf("element %d/%d (%s) is in the %s table but not in the %s table", k[0], k[1], ea.Name, an, bn), fmt.Sprint(k))
				continue
			}
			if ea != eb {
				v("differs:"+an+"-vs-"+bn, fmt.Sprintf("element %d/%d: %s has %+v, %s has %+v", k[0], k[1], an, ea, bn, eb), fmt.Sprint(k))
			}
		}
		for k, eb := range b {
			if _, ok := a[k]; !ok {
				v("missing:"+an, fmt.Sprintf("element %d/%d (%s) is in the %s table but not in the %s table", k[0], k[1], eb.Name, bn, an), fmt.Sprint(k))
			}
		}
	}
	cmp("built-in", "after-load-without-file", builtin, absent)
	cmp("built-in", "shipped-file", builtin, shipped)

	// (d) the shipped file as installations really place it in the configuration directory: a plain copy, a
	// read-only copy, a hard link, a relative and an absolute symbolic link, the two-level link of a mounted
	// configuration volume (ipfix.elements -> ..data/ipfix.elements, ..data -> ..2026_01_01), a copy with CRLF
	// line ends is NOT tried (that is another file). The loaded table must be the one of form (c).
	content, rerr := os.ReadFile(filepath.Join(shippedDir, "ipfix.elements"))
	if rerr != nil {
		run.HarnessError(rerr.Error())
	} else {
		formsDir := filepath.Join(os.Getenv("VERIF_RUN"), "forms")
		store := filepath.Join(formsDir, "store")
		os.MkdirAll(store, 0o755)
		os.WriteFile(filepath.Join(store, "ipfix.elements"), content, 0o644)
		forms := []struct {
			name  string
			place func(dir string) error
		}{
			{"plain copy", func(d string) error { return os.WriteFile(filepath.Join(d, "ipfix.elements"), content, 0o644) }},
			{"read-only copy", func(d string) error { return os.WriteFile(filepath.Join(d, "ipfix.elements"), content, 0o444) }},
			{"hard link", func(d string) error {
				return os.Link(filepath.Join(store, "ipfix.elements"), filepath.Join(d, "ipfix.elements"))
			}},
			{"absolute symbolic link", func(d string) error {
				return os.Symlink(filepath.Join(store, "ipfix.elements"), filepath.Join(d, "ipfix.elements"))
			}},
			{"relative symbolic link", func(d string) error {
				return os.Symlink(filepath.Join("..", "store", "ipfix.elements"), filepath.Join(d, "ipfix.elements"))
			}},
			{"mounted configuration volume (two-level links)", func(d string) error {
				os.MkdirAll(filepath.Join(d, "..2026_01_01"), 0o755)
				os.WriteFile(filepath.Join(d, "..2026_01_01", "ipfix.elements"), content, 0o644)
				if err := os.Symlink("..2026_01_01", filepath.Join(d, "..data")); err != nil {
					return err
				}
				return os.Symlink(filepath.Join("..data", "ipfix.elements"), filepath.Join(d, "ipfix.elements"))
			}},
			{"configuration directory itself a symbolic link", func(d string) error {
				os.Remove(d)
				return os.Symlink(store, d)
			}},
		}
		for fi, f := range forms {
			d := filepath.Join(formsDir, fmt.Sprintf("form%d", fi))
			os.MkdirAll(d, 0o755)
			if err := f.place(d); err != nil {
				run.Inconclusive("installation form '" + f.name + "' cannot be set up here: " + err.Error())
				continue
			}
			ipfix.InfoModel = ipfix.IANAInfoModel{}
			for k, e := range orig {
				ipfix.InfoModel[k] = e
			}
			run.Add("installation_forms_of_the_shipped_file_loaded", 1)
			if err := ipfix.LoadExtElements(d); err != nil {
				v("load-shipped-error:form", "LoadExtElements on the shipped file installed as "+f.name+": "+err.Error(), f.name)
				continue
			}
			cmp("shipped-file", "shipped-file installed as "+f.name, shipped, dump())
		}
		ipfix.InfoModel = orig
	}

	// every entry keyed by its own id, recognised type
	selfKeyed := func(name string, m map[[2]uint32]entry) {
		for k, e := range m {
			run.Eval(1)
			if uint32(e.FieldID) != k[1] {
				v("key-vs-fieldid:"+name, fmt.Sprintf("%s table: entry keyed %d/%d carries FieldID %d (%s)", name, k[0], k[1], e.FieldID, e.Name), fmt.Sprint(k))
			}
			if e.Type == int(ipfix.Unknown) && !(k[0] == 0 && k[1] >= 291 && k[1] <= 293) {
				v("unrecognised-type:"+name, fmt.Sprintf("%s table: element %d/%d (%s) has no recognised abstract data type", name, k[0], k[1], e.Name), fmt.Sprint(k))
			}
			if e.Name == "" {
				v("empty-name:"+name, fmt.Sprintf("%s table: element %d/%d has an empty name", name, k[0], k[1]), fmt.Sprint(k))
			}
		}
	}
	selfKeyed("built-in", builtin)
	selfKeyed("shipped-file", shipped)

	// the file as text: every element has exactly name + type, type name recognised
	for k, props := range file {
		run.Eval(1)
		if len(props) != 2 {
			v("file-entry-shape", fmt.Sprintf("scripts/ipfix.elements: element %d/%d has %d properties (name and type expected)", k[0], k[1], len(props)), fmt.Sprint(k))
			continue
		}
		_, known := typeNo[props[1]]
		if !known && !(listNames[props[1]] && k[0] == 0 && k[1] >= 291 && k[1] <= 293) {
			v("file-type-name", fmt.Sprintf("scripts/ipfix.elements: element %d/%d (%s) has type name %q which the decoder does not know", k[0], k[1], props[0], props[1]), fmt.Sprint(k))
		}
		if e, ok := shipped[k]; !ok {
			v("file-entry-not-loaded", fmt.Sprintf("element %d/%d (%s) is in the file but not in the model after loading it", k[0], k[1], props[0]), fmt.Sprint(k))
		} else if e.Name != props[0] {
			v("file-name-vs-loaded", fmt.Sprintf("element %d/%d: file says %q, loaded model says %q", k[0], k[1], props[0], e.Name), fmt.Sprint(k))
		}
	}

	// snapshot ⊆ both, equal
	for _, e := range snap {
		k := [2]uint32{e.PEN, uint32(e.ID)}
		want := typeNo[e.Type] // "-" → 0 = Unknown
		for name, m := range map[string]map[[2]uint32]entry{"built-in": builtin, "shipped-file": shipped} {
			run.Eval(1)
			got, ok := m[k]
			if !ok {
				v("snapshot-missing:"+name, fmt.Sprintf("snapshot element %d/%d (%s) is missing from the %s table", e.PEN, e.ID, e.Name, name), fmt.Sprint(k))
				continue
			}
			if got.Name != e.Name || got.Type != want || got.FieldID != e.ID {
				v("snapshot-differs:"+name, fmt.Sprintf("element %d/%d: snapshot (%s, %s) vs %s table %+v", e.PEN, e.ID, e.Name, e.Type, name, got), fmt.Sprint(k))
			}
		}
		run.Distinct(fmt.Sprintf("%d/%d", e.PEN, e.ID))
	}

	// decoding identical with and without the file
	for k, a := range decA {
		run.Eval(1)
		if c := decC[k]; c != a {
			v("decode-differs-with-file", fmt.Sprintf("one-field record of element %s decodes to %s with the built-in model and to %s with the shipped file installed", k, a, c), k)
		}
	}
	run.Set("tables", map[string]int{"built-in": len(builtin), "after_load_without_file": len(absent), "shipped_file_loaded": len(shipped), "file_entries_parsed": len(file), "snapshot": len(snap)})
	run.Set("decode_differential_cases", len(decA))
	run.Sample(map[string]interface{}{"element": "0/8", "built-in": builtin[[2]uint32{0, 8}], "shipped": shipped[[2]uint32{0, 8}], "file": file[[2]uint32{0, 8}], "decode(len 4 fill 01)": decA["0/8 len 4 fill 01"]})
	run.Sample(map[string]interface{}{"built-in keys (first 5)": keys(builtin)[:5]})
	run.SetExhaustive(true)
	run.SetRule("complete: every entry of ipfix.InfoModel as built, after LoadExtElements on a directory without the file, and after LoadExtElements(scripts/) is compared entry for entry (key set, FieldID, Name, Type) with each other, with an independent line parse of scripts/ipfix.elements and with the registry snapshot; every entry must be keyed by its own id and have a recognised type (elements 291-293 may stay opaque list types); every snapshot element × every legal length × 6 fillings is decoded as a one-field record with and without the file and against the snapshot's type. distinct = snapshot elements checked")
	run.Assume("the three RFC 6313 list elements 291-293 are deliberately opaque in both tables")
	run.Finish()
}
