// wirecheck decides the "decoded exactly as the wire says" properties with reference-model
// comparison: C03 (ipfix), C06 (nf9), C05 (json), C07 (sflow), C08 (nf5), C09 (meta), C18 (filter).
package main

import (
	"fmt"
	"os"

	"verif/harness/mon"
)

func main() {
	args := mon.ParseArgs()
	switch args.Prop {
	case "C03":
		flowMain(args, "C03", "ipfix")
	case "C06":
		flowMain(args, "C06", "nf9")
	case "C05":
		jsonMain(args)
	case "C07":
		sflowMain(args, "C07")
	case "C18":
		sflowMain(args, "C18")
	case "C08":
		nf5Main(args)
	case "C09":
		metaMain(args)
	default:
		fmt.Println("HARNESS-ERROR wirecheck: unknown property", args.Prop)
		os.Exit(mon.ExitHarness)
	}
}
