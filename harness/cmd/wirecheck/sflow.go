package main

import (
	"bytes"
	"encoding/json"
	"fmt"
	"net"
	"reflect"
	"sort"
	"strings"

	"github.com/EdgeCast/vflow/packet"
	"github.com/EdgeCast/vflow/sflow"

	"verif/harness/mon"
	"verif/harness/wire"
)

type sfCase struct {
	Dgram  string   `json:"datagram"`
	Filter []uint32 `json:"filter"`
	Expect []string `json:"expected"`
	Got    []string `json:"got,omitempty"`
	Desc   string   `json:"desc"`
}

func mac(b [6]byte) string {
	return fmt.Sprintf("%02x:%02x:%02x:%02x:%02x:%02x", b[0], b[1], b[2], b[3], b[4], b[5])
}

// flattenModel lists, as "path=value" lines, everything the decoded datagram must carry for the
// model (samples whose full type word is in filter are omitted).
func flattenModel(d *wire.SFDatagram, filter []uint32) []string {
	var o []string
	add := func(p string, v interface{}) { o = append(o, fmt.Sprintf("%s=%v", p, v)) }
	add("Version", d.Version)
	ipv := 1
	if len(d.Agent) == 16 {
		ipv = 2
	}
	add("IPVersion", ipv)
	add("IPAddress", mon.Hex(d.Agent))
	add("AgentSubID", d.SubAgent)
	add("SequenceNo", d.Seq)
	add("SysUpTime", d.UpTime)
	add("SamplesNo", len(d.Samples))
	nf, nc := 0, 0
	for i := range d.Samples {
		s := &d.Samples[i]
		skip := false
		for _, f := range filter {
			if f == s.TypeWord {
				skip = true
			}
		}
		if skip {
			continue
		}
		switch s.Kind {
		case "flow":
			p := fmt.Sprintf("Samples[%d].", nf)
			nf++
			add(p+"SequenceNo", s.Seq)
			add(p+"SourceID", s.SrcType)
			add(p+"SamplingRate", s.Rate)
			add(p+"SamplePool", s.Pool)
			add(p+"Drops", s.Drops)
			add(p+"Input", s.Input)
			add(p+"Output", s.Output)
			add(p+"RecordsNo", len(s.Recs))
			var keys []string
			for ri := range s.Recs {
				r := &s.Recs[ri]
				switch r.Kind {
				case "raw":
					keys = append(keys, "RawHeader")
					q := p + "RawHeader."
					pk := r.Pkt
					if pk.HeaderProto == 1 {
						add(q+"L2.SrcMAC", mac(pk.Src))
						add(q+"L2.DstMAC", mac(pk.Dst))
						vl := 0
						if pk.HasVlan {
							vl = int(pk.TCI)
						}
						add(q+"L2.Vlan", vl)
						add(q+"L2.EtherType", pk.EtherType)
					} else {
						add(q+"L2.SrcMAC", "")
						add(q+"L2.DstMAC", "")
						add(q+"L2.Vlan", 0)
						add(q+"L2.EtherType", 0)
					}
					if pk.V6 {
						add(q+"L3", "IPv6")
						add(q+"L3.Version", 6)
						add(q+"L3.TrafficClass", pk.TC)
						add(q+"L3.FlowLabel", pk.FlowLabel)
						add(q+"L3.PayloadLen", pk.PayLen)
						add(q+"L3.NextHeader", pk.NextHdr)
						add(q+"L3.HopLimit", pk.HopLimit)
						add(q+"L3.Src", net.IP(pk.Src6[:]).String())
						add(q+"L3.Dst", net.IP(pk.Dst6[:]).String())
					} else {
						add(q+"L3", "IPv4")
						add(q+"L3.Version", 4)
						add(q+"L3.TOS", pk.TOS)
						add(q+"L3.TotalLen", pk.TotLen)
						add(q+"L3.ID", pk.ID)
						add(q+"L3.Flags", pk.Flags3)
						add(q+"L3.FragOff", pk.FragOff)
						add(q+"L3.TTL", pk.TTL)
						add(q+"L3.Protocol", pk.IPProto)
						add(q+"L3.Checksum", pk.IPCsum)
						add(q+"L3.Src", fmt.Sprintf("%d.%d.%d.%d", pk.Src4[0], pk.Src4[1], pk.Src4[2], pk.Src4[3]))
						add(q+"L3.Dst", fmt.Sprintf("%d.%d.%d.%d", pk.Dst4[0], pk.Dst4[1], pk.Dst4[2], pk.Dst4[3]))
					}
					switch pk.L4Proto() {
					case 6:
						add(q+"L4", "TCP")
						add(q+"L4.SrcPort", pk.SPort)
						add(q+"L4.DstPort", pk.DPort)
						add(q+"L4.DataOffset", pk.DataOff)
						add(q+"L4.Reserved", 0)
						add(q+"L4.Flags", pk.TCPFlags)
					case 17:
						add(q+"L4", "UDP")
						add(q+"L4.SrcPort", pk.SPort)
						add(q+"L4.DstPort", pk.DPort)
					default:
						add(q+"L4", "ICMP")
						add(q+"L4.Type", pk.ICMPType)
						add(q+"L4.Code", pk.ICMPCode)
						add(q+"L4.RestHeader", mon.Hex(pk.Rest))
					}
				case "extswitch":
					keys = append(keys, "ExtSwitch")
					q := p + "ExtSwitch."
					add(q+"SrcVlan", r.Vals[0])
					add(q+"SrcPriority", r.Vals[1])
					add(q+"DstVlan", r.Vals[2])
					add(q+"DstPriority", r.Vals[3])
				case "extrouter":
					keys = append(keys, "ExtRouter")
					q := p + "ExtRouter."
					add(q+"NextHop", mon.Hex(r.NextHop))
					add(q+"SrcMask", r.SrcMask)
					add(q+"DstMask", r.DstMask)
				}
			}
			sort.Strings(keys)
			add(p+"Records.keys", strings.Join(keys, ","))
		case "counter":
			p := fmt.Sprintf("Counters[%d].", nc)
			nc++
			add(p+"SequenceNo", s.Seq)
			add(p+"SourceIDType", s.SrcType)
			add(p+"SourceIDIdx", s.SrcIdx)
			add(p+"RecordsNo", len(s.Recs))
			var keys []string
			for ri := range s.Recs {
				r := &s.Recs[ri]
				if r.Kind != "counter" {
					continue
				}
				keys = append(keys, r.Layout.Key)
				for i, n := range r.Layout.Names {
					add(p+r.Layout.Key+"."+n, r.Vals[i])
				}
			}
			sort.Strings(keys)
			add(p+"Records.keys", strings.Join(keys, ","))
		}
	}
	add("len(Samples)", nf)
	add("len(Counters)", nc)
	return o
}

// flattenDecoded renders the real decoder's output in the same form.
func flattenDecoded(d *sflow.SFDatagram) []string {
	var o []string
	add := func(p string, v interface{}) { o = append(o, fmt.Sprintf("%s=%v", p, v)) }
	add("Version", d.Version)
	add("IPVersion", d.IPVersion)
	add("IPAddress", mon.Hex(d.IPAddress))
	add("AgentSubID", d.AgentSubID)
	add("SequenceNo", d.SequenceNo)
	add("SysUpTime", d.SysUpTime)
	add("SamplesNo", d.SamplesNo)
	for i, s := range d.Samples {
		fs, ok := s.(*sflow.FlowSample)
		p := fmt.Sprintf("Samples[%d].", i)
		if !ok {
			add(p+"type", fmt.Sprintf("%T", s))
			continue
		}
		add(p+"SequenceNo", fs.SequenceNo)
		add(p+"SourceID", fs.SourceID)
		add(p+"SamplingRate", fs.SamplingRate)
		add(p+"SamplePool", fs.SamplePool)
		add(p+"Drops", fs.Drops)
		add(p+"Input", fs.Input)
		add(p+"Output", fs.Output)
		add(p+"RecordsNo", fs.RecordsNo)
		var keys []string
		for k := range fs.Records {
			keys = append(keys, k)
		}
		sort.Strings(keys)
		// wire order inside the model is the order records appear; render in that same fixed order
		for _, k := range []string{"RawHeader", "ExtSwitch", "ExtRouter"} {
			_ = k
		}
		// records are rendered in the order the model lists them: we cannot know it here, so the
		// comparison is done on sorted line sets per sample (see compareFlat)
		if r, ok := fs.Records["RawHeader"]; ok {
			q := p + "RawHeader."
			pk, ok := r.(*packet.Packet)
			if !ok {
				add(q+"type", fmt.Sprintf("%T", r))
			} else {
				add(q+"L2.SrcMAC", pk.L2.SrcMAC)
				add(q+"L2.DstMAC", pk.L2.DstMAC)
				add(q+"L2.Vlan", pk.L2.Vlan)
				add(q+"L2.EtherType", pk.L2.EtherType)
				switch l3 := pk.L3.(type) {
				case packet.IPv4Header:
					add(q+"L3", "IPv4")
					add(q+"L3.Version", l3.Version)
					add(q+"L3.TOS", l3.TOS)
					add(q+"L3.TotalLen", l3.TotalLen)
					add(q+"L3.ID", l3.ID)
					add(q+"L3.Flags", l3.Flags)
					add(q+"L3.FragOff", l3.FragOff)
					add(q+"L3.TTL", l3.TTL)
					add(q+"L3.Protocol", l3.Protocol)
					add(q+"L3.Checksum", l3.Checksum)
					add(q+"L3.Src", l3.Src)
					add(q+"L3.Dst", l3.Dst)
				case packet.IPv6Header:
					add(q+"L3", "IPv6")
					add(q+"L3.Version", l3.Version)
					add(q+"L3.TrafficClass", l3.TrafficClass)
					add(q+"L3.FlowLabel", l3.FlowLabel)
					add(q+"L3.PayloadLen", l3.PayloadLen)
					add(q+"L3.NextHeader", l3.NextHeader)
					add(q+"L3.HopLimit", l3.HopLimit)
					add(q+"L3.Src", l3.Src)
					add(q+"L3.Dst", l3.Dst)
				default:
					add(q+"L3", fmt.Sprintf("%T", pk.L3))
				}
				switch l4 := pk.L4.(type) {
				case packet.TCPHeader:
					add(q+"L4", "TCP")
					add(q+"L4.SrcPort", l4.SrcPort)
					add(q+"L4.DstPort", l4.DstPort)
					add(q+"L4.DataOffset", l4.DataOffset)
					add(q+"L4.Reserved", l4.Reserved)
					add(q+"L4.Flags", l4.Flags)
				case packet.UDPHeader:
					add(q+"L4", "UDP")
					add(q+"L4.SrcPort", l4.SrcPort)
					add(q+"L4.DstPort", l4.DstPort)
				case packet.ICMP:
					add(q+"L4", "ICMP")
					add(q+"L4.Type", l4.Type)
					add(q+"L4.Code", l4.Code)
					add(q+"L4.RestHeader", mon.Hex(l4.RestHeader))
				default:
					add(q+"L4", fmt.Sprintf("%T", pk.L4))
				}
			}
		}
		if r, ok := fs.Records["ExtSwitch"]; ok {
			q := p + "ExtSwitch."
			if es, ok := r.(*sflow.ExtSwitchData); ok {
				add(q+"SrcVlan", es.SrcVlan)
				add(q+"SrcPriority", es.SrcPriority)
				add(q+"DstVlan", es.DstVlan)
				add(q+"DstPriority", es.DstPriority)
			} else {
				add(q+"type", fmt.Sprintf("%T", r))
			}
		}
		if r, ok := fs.Records["ExtRouter"]; ok {
			q := p + "ExtRouter."
			if er, ok := r.(*sflow.ExtRouterData); ok {
				add(q+"NextHop", mon.Hex(er.NextHop))
				add(q+"SrcMask", er.SrcMask)
				add(q+"DstMask", er.DstMask)
			} else {
				add(q+"type", fmt.Sprintf("%T", r))
			}
		}
		add(p+"Records.keys", strings.Join(keys, ","))
	}
	for i, c := range d.Counters {
		cs, ok := c.(*sflow.CounterSample)
		p := fmt.Sprintf("Counters[%d].", i)
		if !ok {
			add(p+"type", fmt.Sprintf("%T", c))
			continue
		}
		add(p+"SequenceNo", cs.SequenceNo)
		add(p+"SourceIDType", cs.SourceIDType)
		add(p+"SourceIDIdx", cs.SourceIDIdx)
		add(p+"RecordsNo", cs.RecordsNo)
		var keys []string
		for k := range cs.Records {
			keys = append(keys, k)
		}
		sort.Strings(keys)
		for _, k := range keys {
			rv := reflect.ValueOf(cs.Records[k])
			if rv.Kind() == reflect.Ptr {
				rv = rv.Elem()
			}
			if rv.Kind() != reflect.Struct {
				add(p+k+".type", fmt.Sprintf("%T", cs.Records[k]))
				continue
			}
			for fi := 0; fi < rv.NumField(); fi++ {
				add(p+k+"."+rv.Type().Field(fi).Name, rv.Field(fi).Uint())
			}
		}
		add(p+"Records.keys", strings.Join(keys, ","))
	}
	add("len(Samples)", len(d.Samples))
	add("len(Counters)", len(d.Counters))
	return o
}

// compareFlat compares two line sets (order-insensitive: each path is unique).
func compareFlat(exp, got []string) (string, string) {
	em := map[string]string{}
	for _, l := range exp {
		i := strings.IndexByte(l, '=')
		em[l[:i]] = l[i+1:]
	}
	gm := map[string]string{}
	for _, l := range got {
		i := strings.IndexByte(l, '=')
		gm[l[:i]] = l[i+1:]
	}
	var paths []string
	for p := range em {
		paths = append(paths, p)
	}
	sort.Strings(paths)
	for _, p := range paths {
		g, ok := gm[p]
		if !ok {
			return "missing:" + classPath(p), fmt.Sprintf("%s: expected %s, absent from the decoded datagram", p, em[p])
		}
		if g != em[p] {
			return "value:" + classPath(p), fmt.Sprintf("%s: wire says %s, decoded %s", p, em[p], g)
		}
	}
	for p, g := range gm {
		if _, ok := em[p]; !ok {
			return "extra:" + classPath(p), fmt.Sprintf("%s=%s decoded but not on the wire", p, g)
		}
	}
	return "", ""
}

// classPath strips indices so that one defect gives one signature.
func classPath(p string) string {
	var sb strings.Builder
	in := false
	for _, c := range p {
		if c == '[' {
			in = true
			continue
		}
		if c == ']' {
			in = false
			continue
		}
		if !in {
			sb.WriteRune(c)
		}
	}
	return sb.String()
}

func sfDecode(b []byte, filter []uint32) (d *sflow.SFDatagram, err error, pn string) {
	defer func() {
		if p := recover(); p != nil {
			pn = fmt.Sprint(p)
		}
	}()
	dec := sflow.NewSFDecoder(bytes.NewReader(b), filter)
	d, err = dec.SFDecode()
	return
}

func runSFCase(c *sfCase) (string, string) {
	d, err, pn := sfDecode(mon.UnHex(c.Dgram), c.Filter)
	if pn != "" {
		return "panic", pn
	}
	if d == nil {
		return "nil-datagram", fmt.Sprintf("no datagram decoded from a well-formed input: %v", err)
	}
	c.Got = flattenDecoded(d)
	k, w := compareFlat(c.Expect, c.Got)
	if k != "" && err != nil {
		w += fmt.Sprintf(" (decoder error: %v)", err)
	}
	if k == "" && err != nil {
		return "error-returned", fmt.Sprintf("decoder returned the expected content together with an error: %v", err)
	}
	if k == "" {
		// the published form must at least be produced
		if _, jerr := json.Marshal(d); jerr != nil {
			return "json-error", jerr.Error()
		}
	}
	return k, w
}

func sfDesc(d *wire.SFDatagram) (string, bool) {
	var sb strings.Builder
	nontrivial := false
	fmt.Fprintf(&sb, "a%d", len(d.Agent))
	for _, s := range d.Samples {
		sb.WriteString("|" + s.Kind[:1])
		if s.Kind == "unknown" {
			if s.TypeWord>>12 != 0 {
				sb.WriteString("E")
			}
			continue
		}
		nontrivial = true
		for _, r := range s.Recs {
			switch r.Kind {
			case "raw":
				p := r.Pkt
				fmt.Fprintf(&sb, "R%d", p.HeaderProto)
				if p.HasVlan {
					sb.WriteString("v")
				}
				if p.V6 {
					sb.WriteString("6")
				}
				fmt.Fprintf(&sb, "p%d", p.L4Proto())
				fmt.Fprintf(&sb, "x%d", len(r.Header)%4)
			case "counter":
				sb.WriteString("C" + r.Layout.Key)
			case "unknown":
				sb.WriteString("U")
			default:
				sb.WriteString(r.Kind[3:4])
				if r.Kind == "extrouter" {
					fmt.Fprintf(&sb, "%d", len(r.NextHop))
				}
			}
		}
	}
	return sb.String(), nontrivial
}

func sflowMain(args mon.Args, prop string) {
	mode := "sflow"
	if prop == "C18" {
		mode = "filter"
	}
	run := mon.NewRun(prop, "wirecheck/"+mode, "exploration")
	if args.Replay != "" {
		d, err := mon.LoadReplay(args.Replay)
		if err != nil {
			run.HarnessError(err.Error())
			run.Finish()
		}
		var c sfCase
		json.Unmarshal(d.Case, &c)
		run.Eval(1)
		run.DistinctBulk(2)
		if k, w := runSFCase(&c); k != "" {
			run.Violation(d.Signature, w, c)
		} else {
			fmt.Println("replay: the case no longer violates")
		}
		run.Finish()
	}
	filters := [][]uint32{nil}
	if prop == "C18" {
		base := []uint32{1, 2, 3, 4, 7}
		filters = [][]uint32{{}}
		for i := range base {
			filters = append(filters, []uint32{base[i]})
			for j := i + 1; j < len(base); j++ {
				filters = append(filters, []uint32{base[i], base[j]}, []uint32{base[j], base[i]})
				for k := j + 1; k < len(base); k++ {
					filters = append(filters, []uint32{base[i], base[j], base[k]})
				}
			}
		}
		filters = append(filters, []uint32{1, 1}, []uint32{2, 2, 1}, []uint32{0}, []uint32{4095}, []uint32{1, 2, 3, 4, 7})
		// entries that are not a supported type but equal one in their low 8/12/16 bits, or are an enterprise
		// format (enterprise<<12 | format): they must remove nothing that is decoded
		filters = append(filters, []uint32{257}, []uint32{258, 513}, []uint32{4096}, []uint32{4097}, []uint32{4098}, []uint32{4099, 4100},
			[]uint32{65537}, []uint32{65538}, []uint32{1 << 16}, []uint32{0x00fff001}, []uint32{0x00fff002}, []uint32{0x80000001}, []uint32{0xffffffff},
			[]uint32{5, 8194}, []uint32{1, 65538}, []uint32{2, 4097}, []uint32{1<<32 - 4096 + 1, 1<<32 - 4096 + 2})
	}
	n := run.Pick(20000, 1000000)
	if prop == "C18" {
		n = run.Pick(4000, 200000) // × filters, two decodes each
	}
	var filteredSeen, keptAfterFiltered int64
	mon.ParallelFor(n, func(i int) {
		g := mon.NewRNG(run.Seed, mode, i)
		d := wire.GenSFDatagram(g, prop == "C07")
		if prop == "C18" && len(d.Samples) < 2 {
			d.Samples = append(d.Samples, wire.GenSFSample(g, "counter", false), wire.GenSFSample(g, "flow", false))
		}
		b := d.Encode()
		if len(b) > 65000 {
			return
		}
		desc, nontrivial := sfDesc(d)
		fl := filters
		if prop == "C18" {
			// a third of the filters per datagram, rotating, so that all filters meet all shapes
			fl = nil
			for k := range filters {
				if (k+i)%3 == 0 {
					fl = append(fl, filters[k])
				}
			}
		}
		var base []string
		if prop == "C18" {
			d0, _, pn := sfDecode(b, nil)
			if pn == "" && d0 != nil {
				base = flattenDecoded(d0)
			}
		}
		for _, f := range fl {
			c := &sfCase{Dgram: mon.Hex(b), Filter: f, Expect: flattenModel(d, f), Desc: desc}
			run.Eval(1)
			if nontrivial {
				run.Distinct(desc + fmt.Sprint(f))
			}
			if i == 0 {
				run.Sample(map[string]interface{}{"datagram": c.Dgram, "filter": f, "expected(first 12)": c.Expect[:min(12, len(c.Expect))]})
			}
			k, w := runSFCase(c)
			if k != "" {
				run.Violation(mode+":"+k, w, c)
				continue
			}
			if prop == "C18" {
				// metamorphic: decode with filter == decode without filter minus the filtered samples
				hit, after := false, false
				for _, s := range d.Samples {
					isF := false
					for _, t := range f {
						if t == s.TypeWord {
							isF = true
						}
					}
					if isF {
						hit = true
					} else if hit && s.Kind != "unknown" {
						after = true
					}
				}
				if hit {
					run.Add("cases_with_a_filtered_sample", 1)
				}
				if after {
					run.Add("cases_with_a_kept_sample_after_a_filtered_one", 1)
				}
				if base != nil && len(f) == 0 {
					if kk, ww := compareFlat(base, c.Got); kk != "" {
						run.Violation(mode+":empty-filter-differs:"+kk, ww, c)
					}
				}
			}
		}
	})
	_ = filteredSeen
	_ = keptAfterFiltered
	if prop == "C07" {
		// every counter record type × every field position distinguished, both sample orders
		for li := range wire.CounterLayouts {
			l := &wire.CounterLayouts[li]
			for pos := range l.Names {
				g := mon.NewRNG(run.Seed, "sfpos", li*100+pos)
				vals := make([]uint64, len(l.Names))
				for i := range vals {
					vals[i] = 7
				}
				vals[pos] = 0xA5A5A5A5
				if l.Widths[pos] == 8 {
					vals[pos] = 0xA5A5A5A5C3C3C3C3
				}
				d := &wire.SFDatagram{Version: 5, Agent: g.Bytes(4), Samples: []wire.SFSample{{TypeWord: 2, Kind: "counter", Seq: 1, SrcIdx: 5,
					Recs: []wire.SFRec{{Format: l.Format, Kind: "counter", Layout: l, Vals: vals}}}}}
				c := &sfCase{Dgram: mon.Hex(d.Encode()), Expect: flattenModel(d, nil), Desc: "position sweep " + l.Key + "." + l.Names[pos]}
				run.Eval(1)
				run.Distinct(c.Desc)
				if k, w := runSFCase(c); k != "" {
					run.Violation(mode+":"+k, w, c)
				}
			}
		}
		// sampled header length sweep: every length from the L2-L4 minimum to +8 for each shape (XDR padding 0..3)
		for shape := 0; shape < 400; shape++ {
			g := mon.NewRNG(run.Seed, "sfhdr", shape)
			p := wire.GenPkt(g)
			p.Rest = p.Rest[:min(len(p.Rest), 1)]
			if p.L4Proto() == 6 || p.L4Proto() == 17 {
				p.Rest = nil
			}
			for extra := 0; extra < 8; extra++ {
				q := *p
				q.Rest = append(append([]byte{}, p.Rest...), g.Bytes(extra)...)
				d := &wire.SFDatagram{Version: 5, Agent: g.Bytes(4), Samples: []wire.SFSample{{TypeWord: 1, Kind: "flow", Seq: 9,
					Recs: []wire.SFRec{{Format: 1, Kind: "raw", Pkt: &q, FrameLen: 100, Header: q.Encode()}}}}}
				desc, _ := sfDesc(d)
				c := &sfCase{Dgram: mon.Hex(d.Encode()), Expect: flattenModel(d, nil), Desc: "header length sweep " + desc}
				run.Eval(1)
				run.Distinct(c.Desc)
				if k, w := runSFCase(c); k != "" {
					run.Violation(mode+":"+k, w, c)
				}
			}
		}
	}
	if prop == "C07" {
		// count ladders: a datagram of exactly n samples for every n up to what a 64 KiB datagram can carry of
		// small samples - the statement says "every sample of a datagram", and the random generator
		// stops at 12 (a ladder over records per sample is not run: a sample carries each record format at most
		// once, the decoder keys records by format)
		top := run.Pick(300, 1200)
		var ns []int
		for n := 0; n <= top; n++ {
			ns = append(ns, n)
		}
		mon.ParallelFor(len(ns), func(ni int) {
			n := ns[ni]
			g := mon.NewRNG(run.Seed, "sfcount", n)
			d := &wire.SFDatagram{Version: 5, Agent: g.Bytes(4), Seq: uint32(n), UpTime: g.U32()}
			for i := 0; i < n; i++ {
				k := []string{"counter", "flow"}[(i+n)%2]
				sm := wire.GenSFSample(g, k, false)
				if len(sm.Recs) > 1 {
					sm.Recs = sm.Recs[:1]
				}
				sm.Seq = uint32(i + 1)
				d.Samples = append(d.Samples, sm)
			}
			b := d.Encode()
			if len(b) > 65000 {
				return
			}
			c := &sfCase{Dgram: mon.Hex(b), Expect: flattenModel(d, nil), Desc: fmt.Sprintf("datagram of exactly %d samples", n)}
			run.Eval(1)
			run.Distinct(c.Desc)
			run.Add("sample_count_ladder_datagrams", 1)
			if k, w := runSFCase(c); k != "" {
				run.Violation(mode+":"+k, fmt.Sprintf("%s: %s", c.Desc, w), c)
			}
		})
	}
	// canary
	{
		g := mon.NewRNG(run.Seed, "canary", 1)
		d := wire.GenSFDatagram(g, false)
		d.Samples = append(d.Samples, wire.GenSFSample(g, "counter", false))
		c := &sfCase{Dgram: mon.Hex(d.Encode()), Expect: flattenModel(d, nil)}
		c.Expect[3] = "AgentSubID=-1"
		if k, _ := runSFCase(c); k == "" {
			run.HarnessError("canary: comparator accepted a corrupted expectation")
		}
	}
	if prop == "C18" {
		run.Set("filters", len(filters))
		run.SetRule("C07 generator (no enterprise samples) × filter lists: all subsets of {1,2,3,4,7} up to size 3 in both orders, duplicates, 0, 4095, all five, and 17 lists with entries that alias a supported type in their low 8/12/16 bits (257, 4097, 65537, 0x00fff001, 0x80000001, ...); each datagram meets a rotating third of the filters. Oracle: SFDecode(D,F) equals the model with the samples whose type is in F removed (reference) and SFDecode(D,[]) equals SFDecode(D,nil) (metamorphic). distinct = (datagram shape, filter); non-trivial = datagram has at least one supported sample")
		if run.Counter("cases_with_a_kept_sample_after_a_filtered_one") == 0 {
			run.HarnessError("no case had a kept sample after a filtered one: the filter's effect on its neighbours was never observed")
		}
	} else {
		run.SetRule("model → independent XDR encoder → real SFDecode(nil filter) → explicit comparison of every exported field (datagram header, flow samples and counter samples in wire order within their kind, raw header L2/L3/L4, extended switch/router, six counter record types). Datagrams: 0-12 samples in any order of flow/counter/expanded/unknown/enterprise-specific samples, 0-6 records each in any order incl. unknown and enterprise-specific records, all counter values pairwise distinct; plus every counter field position distinguished and every sampled-header length minimum..+7 (XDR padding 0-3). distinct = structural descriptor of the datagram; non-trivial = at least one supported sample")
	}
	run.Assume("well-formedness contract of DESIGN.md Appendix A (IHL 5, no IPv6 extension headers, at most one 802.1Q tag with PCP/DEI 0, sampled header contains the L4 minimum, at most one record of each supported type per sample)")
	run.Assume("ColTime (collector clock) is not compared")
	run.Finish()
}
