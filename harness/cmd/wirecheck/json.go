package main

import (
	"bytes"
	"encoding/base64"
	"encoding/hex"
	"encoding/json"
	"fmt"
	"math"
	"net"
	"reflect"
	"strconv"
	"strings"
	"unicode/utf8"

	"github.com/EdgeCast/vflow/ipfix"
	netflow9 "github.com/EdgeCast/vflow/netflow/v9"

	"verif/harness/mon"
	"verif/harness/wire"
)

// fieldView is what the JSON must carry for one decoded field.
type fieldView struct {
	ID    uint16
	PEN   uint32
	Value interface{}
}

// stripFFFD removes replacement characters and the invalid bytes they stand for, so that two
// texts can be compared "outside U+FFFD replacements".
func splitValid(s string) []string {
	var parts []string
	var cur strings.Builder
	for len(s) > 0 {
		r, n := utf8.DecodeRuneInString(s)
		if r == utf8.RuneError && n <= 1 || r == 0xFFFD {
			if cur.Len() > 0 {
				parts = append(parts, cur.String())
				cur.Reset()
			}
		} else {
			cur.WriteString(s[:n])
		}
		s = s[n:]
	}
	if cur.Len() > 0 {
		parts = append(parts, cur.String())
	}
	return parts
}

// valueMatches says whether the parsed JSON value v carries the decoded Go value g.
func valueMatches(g interface{}, v interface{}) (bool, string) {
	num := func() (string, bool) {
		n, ok := v.(json.Number)
		return n.String(), ok
	}
	switch x := g.(type) {
	case uint8, uint16, uint32, uint64, int8, int16, int32, int64:
		s, ok := num()
		want := fmt.Sprint(x)
		return ok && s == want, "exact decimal " + want
	case float32:
		if math.IsNaN(float64(x)) || math.IsInf(float64(x), 0) {
			_, isNum := v.(json.Number)
			return !isNum, "a non-number for NaN/Inf"
		}
		s, ok := num()
		if !ok {
			return false, "a number"
		}
		f, err := strconv.ParseFloat(s, 32)
		return err == nil && float32(f) == x && math.Signbit(f) == math.Signbit(float64(x)), fmt.Sprintf("float32 %v", x)
	case float64:
		if math.IsNaN(x) || math.IsInf(x, 0) {
			_, isNum := v.(json.Number)
			return !isNum, "a non-number for NaN/Inf"
		}
		s, ok := num()
		if !ok {
			return false, "a number"
		}
		f, err := strconv.ParseFloat(s, 64)
		return err == nil && f == x && math.Signbit(f) == math.Signbit(x), fmt.Sprintf("float64 %v", x)
	case bool:
		b, ok := v.(bool)
		return ok && b == x, fmt.Sprintf("JSON boolean %v", x)
	case string:
		s, ok := v.(string)
		if !ok {
			return false, "a JSON string"
		}
		if utf8.ValidString(x) && !strings.ContainsRune(x, 0xFFFD) {
			return s == x, fmt.Sprintf("string %q", x)
		}
		return fmt.Sprint(splitValid(s)) == fmt.Sprint(splitValid(x)), fmt.Sprintf("string %q (compared outside U+FFFD replacements)", x)
	case net.IP:
		s, ok := v.(string)
		return ok && s == x.String(), "address text " + x.String()
	case net.HardwareAddr:
		s, ok := v.(string)
		return ok && s == x.String(), "MAC text " + x.String()
	case []byte:
		s, ok := v.(string)
		return ok && s == "0x"+hex.EncodeToString(x), "0x" + hex.EncodeToString(x)
	}
	return false, fmt.Sprintf("unsupported decoded type %T", g)
}

// checkFlowJSON validates the marshalled document against the decoded message.
func checkFlowJSON(out []byte, agent string, hdrNames []string, hdrVals []uint32, recs [][]fieldView, allowE bool) (string, string) {
	if !json.Valid(out) {
		return "invalid-json", "not a valid JSON document: " + clip(string(out), 300)
	}
	dec := json.NewDecoder(bytes.NewReader(out))
	dec.UseNumber()
	var doc struct {
		AgentID  *string
		Header   map[string]json.Number
		DataSets [][]map[string]interface{}
	}
	if err := dec.Decode(&doc); err != nil {
		return "json-shape", err.Error()
	}
	if doc.AgentID == nil || *doc.AgentID != agent {
		return "agent", fmt.Sprintf("AgentID %v, exporter address text is %q", doc.AgentID, agent)
	}
	if len(doc.Header) != len(hdrNames) {
		return "header-members", fmt.Sprintf("header has %d members, %d expected", len(doc.Header), len(hdrNames))
	}
	for i, n := range hdrNames {
		if doc.Header[n].String() != fmt.Sprint(hdrVals[i]) {
			return "header:" + n, fmt.Sprintf("Header.%s = %q, decoded %d", n, doc.Header[n], hdrVals[i])
		}
	}
	if len(doc.DataSets) != len(recs) {
		return "record-count", fmt.Sprintf("%d records in JSON, %d decoded", len(doc.DataSets), len(recs))
	}
	for i, r := range recs {
		if len(doc.DataSets[i]) != len(r) {
			return "field-count", fmt.Sprintf("record %d: %d fields in JSON, %d decoded", i, len(doc.DataSets[i]), len(r))
		}
		for j, f := range r {
			o := doc.DataSets[i][j]
			id, _ := o["I"].(json.Number)
			if id.String() != fmt.Sprint(f.ID) {
				return "field-id", fmt.Sprintf("record %d field %d: I=%v, decoded id %d", i, j, o["I"], f.ID)
			}
			e, hasE := o["E"]
			if f.PEN != 0 {
				en, _ := e.(json.Number)
				if !hasE || en.String() != fmt.Sprint(f.PEN) {
					return "field-enterprise", fmt.Sprintf("record %d field %d: E=%v, decoded enterprise %d", i, j, e, f.PEN)
				}
			} else if hasE {
				return "field-enterprise", fmt.Sprintf("record %d field %d: E=%v present for enterprise 0", i, j, e)
			}
			want := 2
			if hasE {
				want = 3
			}
			if len(o) != want {
				return "field-members", fmt.Sprintf("record %d field %d has members %v", i, j, o)
			}
			v, hasV := o["V"]
			if !hasV {
				return "field-value-missing", fmt.Sprintf("record %d field %d has no V", i, j)
			}
			if ok, want := valueMatches(f.Value, v); !ok {
				return "value:" + fmt.Sprintf("%T", f.Value), fmt.Sprintf("record %d field %d (id %d): V=%v (%T), decoded value needs %s", i, j, f.ID, v, v, want)
			}
		}
	}
	return "", ""
}

func clip(s string, n int) string {
	if len(s) > n {
		return s[:n] + "…"
	}
	return s
}

type jsonCase struct {
	Proto    string   `json:"proto"`
	Elements bool     `json:"elements_file_loaded"`
	Addr     string   `json:"exporter"`
	Dgrams   []string `json:"datagrams"`
	Output   string   `json:"json_output,omitempty"`
	Desc     string   `json:"desc,omitempty"`
}

// runJSONCase decodes the datagrams on a fresh cache and checks the JSON of every message that
// carries data sets (what the worker would publish).
func runJSONCase(c *jsonCase) (kind, what string, docs int) {
	defer func() {
		if p := recover(); p != nil {
			kind, what = "panic", fmt.Sprint(p)
		}
	}()
	addr := mon.UnHex(c.Addr)
	switch c.Proto {
	case "ipfix":
		cache := ipfix.GetCache("")
		for _, h := range c.Dgrams {
			msg, _ := ipfix.NewDecoder(net.IP(addr), mon.UnHex(h)).Decode(cache)
			if msg == nil || len(msg.DataSets) == 0 {
				continue
			}
			out, err := msg.JSONMarshal(new(bytes.Buffer))
			docs++
			if err != nil {
				return "marshal-error", fmt.Sprintf("decoded %d records but JSONMarshal failed (message lost): %v", len(msg.DataSets), err), docs
			}
			c.Output = string(out)
			var recs [][]fieldView
			for _, ds := range msg.DataSets {
				var r []fieldView
				for _, f := range ds {
					r = append(r, fieldView{f.ID, f.EnterpriseNo, f.Value})
				}
				recs = append(recs, r)
			}
			hv := []uint32{uint32(msg.Header.Version), uint32(msg.Header.Length), msg.Header.ExportTime, msg.Header.SequenceNo, msg.Header.DomainID}
			if k, w := checkFlowJSON(out, net.IP(addr).String(), []string{"Version", "Length", "ExportTime", "SequenceNo", "DomainID"}, hv, recs, true); k != "" {
				return k, w, docs
			}
		}
	case "nf9":
		cache := netflow9.GetCache("")
		for _, h := range c.Dgrams {
			msg, _ := netflow9.NewDecoder(net.IP(addr), mon.UnHex(h)).Decode(cache)
			if msg == nil || msg.DataSets == nil {
				continue
			}
			out, err := msg.JSONMarshal(new(bytes.Buffer))
			docs++
			if err != nil {
				return "marshal-error", fmt.Sprintf("decoded %d records but JSONMarshal failed (message lost): %v", len(msg.DataSets), err), docs
			}
			c.Output = string(out)
			var recs [][]fieldView
			for _, ds := range msg.DataSets {
				var r []fieldView
				for _, f := range ds {
					r = append(r, fieldView{f.ID, 0, f.Value})
				}
				recs = append(recs, r)
			}
			hv := []uint32{uint32(msg.Header.Version), uint32(msg.Header.Count), msg.Header.SysUpTime, msg.Header.UNIXSecs, msg.Header.SeqNum, msg.Header.SrcID}
			if k, w := checkFlowJSON(out, net.IP(addr).String(), []string{"Version", "Count", "SysUpTime", "UNIXSecs", "SeqNum", "SrcID"}, hv, recs, false); k != "" {
				return k, w, docs
			}
		}
	case "nf5":
		docs++
		k, w := checkNf5(addr, mon.UnHex(c.Dgrams[0]))
		return k, w, docs
	case "sflow":
		d, err, pn := sfDecode(mon.UnHex(c.Dgrams[0]), nil)
		if pn != "" {
			return "panic", pn, docs
		}
		if d == nil || err != nil {
			return "", "", docs
		}
		out, jerr := json.Marshal(d)
		docs++
		if jerr != nil {
			return "marshal-error", fmt.Sprintf("decoded datagram but json.Marshal failed (message lost): %v", jerr), docs
		}
		c.Output = string(out)
		if !json.Valid(out) {
			return "invalid-json", clip(string(out), 300), docs
		}
		dec := json.NewDecoder(bytes.NewReader(out))
		dec.UseNumber()
		var js interface{}
		if e := dec.Decode(&js); e != nil {
			return "json-shape", e.Error(), docs
		}
		if p, w := jsonEq(reflect.ValueOf(d), js, "$"); w != "" {
			return "sflow-json:" + classPath(p), p + ": " + w, docs
		}
	}
	return "", "", docs
}

var ipType = reflect.TypeOf(net.IP{})

// jsonEq compares a Go value with its parsed JSON rendering under encoding/json's documented
// mapping (the sFlow datagram is published through json.Marshal).
func jsonEq(g reflect.Value, js interface{}, path string) (string, string) {
	for g.Kind() == reflect.Ptr || g.Kind() == reflect.Interface {
		if g.IsNil() {
			if js != nil {
				return path, fmt.Sprintf("nil in the decoded datagram, %v in JSON", js)
			}
			return "", ""
		}
		g = g.Elem()
	}
	switch g.Kind() {
	case reflect.Struct:
		m, ok := js.(map[string]interface{})
		if !ok {
			return path, fmt.Sprintf("struct rendered as %T", js)
		}
		n := 0
		for i := 0; i < g.NumField(); i++ {
			f := g.Type().Field(i)
			if f.PkgPath != "" {
				continue
			}
			n++
			v, ok := m[f.Name]
			if !ok {
				return path + "." + f.Name, "member missing"
			}
			if p, w := jsonEq(g.Field(i), v, path+"."+f.Name); w != "" {
				return p, w
			}
		}
		if len(m) != n {
			return path, fmt.Sprintf("%d members in JSON, %d exported fields", len(m), n)
		}
	case reflect.Map:
		m, ok := js.(map[string]interface{})
		if !ok {
			return path, fmt.Sprintf("map rendered as %T", js)
		}
		if len(m) != g.Len() {
			return path, fmt.Sprintf("%d members in JSON, %d in the map", len(m), g.Len())
		}
		for _, k := range g.MapKeys() {
			v, ok := m[k.String()]
			if !ok {
				return path + "." + k.String(), "member missing"
			}
			if p, w := jsonEq(g.MapIndex(k), v, path+"."+k.String()); w != "" {
				return p, w
			}
		}
	case reflect.Slice:
		if g.Type().Elem().Kind() == reflect.Uint8 {
			if g.IsNil() {
				if js != nil {
					return path, "nil octets rendered as non-null"
				}
				return "", ""
			}
			s, ok := js.(string)
			if !ok {
				return path, fmt.Sprintf("octets rendered as %T", js)
			}
			if g.Type() == ipType {
				if want := net.IP(g.Bytes()).String(); s != want {
					return path, fmt.Sprintf("address %q in JSON, canonical text is %q", s, want)
				}
				return "", ""
			}
			if want := base64.StdEncoding.EncodeToString(g.Bytes()); s != want {
				return path, fmt.Sprintf("octets %q in JSON, base64 of the decoded octets is %q", s, want)
			}
			return "", ""
		}
		a, ok := js.([]interface{})
		if !ok {
			if g.IsNil() && js == nil {
				return "", ""
			}
			return path, fmt.Sprintf("list rendered as %T", js)
		}
		if len(a) != g.Len() {
			return path, fmt.Sprintf("%d elements in JSON, %d decoded", len(a), g.Len())
		}
		for i := 0; i < g.Len(); i++ {
			if p, w := jsonEq(g.Index(i), a[i], fmt.Sprintf("%s[%d]", path, i)); w != "" {
				return p, w
			}
		}
	case reflect.Uint, reflect.Uint8, reflect.Uint16, reflect.Uint32, reflect.Uint64:
		n, ok := js.(json.Number)
		if !ok || n.String() != fmt.Sprint(g.Uint()) {
			return path, fmt.Sprintf("%v in JSON, decoded %d", js, g.Uint())
		}
	case reflect.Int, reflect.Int8, reflect.Int16, reflect.Int32, reflect.Int64:
		n, ok := js.(json.Number)
		if !ok || n.String() != fmt.Sprint(g.Int()) {
			return path, fmt.Sprintf("%v in JSON, decoded %d", js, g.Int())
		}
	case reflect.String:
		s, ok := js.(string)
		if !ok || s != g.String() {
			return path, fmt.Sprintf("%v in JSON, decoded %q", js, g.String())
		}
	case reflect.Bool:
		b, ok := js.(bool)
		if !ok || b != g.Bool() {
			return path, fmt.Sprintf("%v in JSON, decoded %v", js, g.Bool())
		}
	default:
		return path, "unsupported kind " + g.Kind().String()
	}
	return "", ""
}

func jsonMain(args mon.Args) {
	run := mon.NewRun("C05", "wirecheck/json", "exploration")
	if args.Replay != "" {
		d, err := mon.LoadReplay(args.Replay)
		if err != nil {
			run.HarnessError(err.Error())
			run.Finish()
		}
		if strings.Contains(d.Signature, "differs-from-the-wire") && strings.HasPrefix(d.Signature, "json:sflow") {
			var sc sfCase
			json.Unmarshal(d.Case, &sc)
			run.Eval(1)
			run.DistinctBulk(2)
			if k, w := runSFCase(&sc); k != "" {
				run.Violation(d.Signature, w, sc)
			} else {
				fmt.Println("replay: the case no longer violates")
			}
			run.Finish()
		}
		var c jsonCase
		json.Unmarshal(d.Case, &c)
		if c.Elements {
			installElements(run)
		}
		run.Eval(1)
		run.DistinctBulk(2)
		if k, w, _ := runJSONCase(&c); k != "" {
			run.Violation(d.Signature, w, c)
		} else {
			fmt.Println("replay: the case no longer violates")
		}
		run.Finish()
	}
	snap, err := wire.LoadSnapshot(mon.Root())
	if err != nil {
		run.HarnessError(err.Error())
		run.Finish()
	}
	restore := installElements(run)
	defer restore()
	all := append(append([]wire.Elem{}, snap...), wire.SyntheticElems()...)
	var docsTotal int64
	one := func(c *jsonCase, desc string, sample bool) {
		run.Eval(1)
		k, w, docs := runJSONCase(c)
		run.Add("documents_checked", int64(docs))
		if docs > 0 {
			run.Distinct(c.Proto + desc)
		}
		if sample {
			run.Sample(map[string]interface{}{"proto": c.Proto, "datagrams": c.Dgrams, "json": clip(c.Output, 400)})
		}
		if k != "" {
			run.Violation("json:"+c.Proto+":"+k, w, c)
		}
	}
	_ = docsTotal
	// sweep: every element × boundary / hostile contents at its natural length (and varlen for strings)
	for _, proto := range []string{"ipfix", "nf9"} {
		for ei, e := range all {
			if proto == "nf9" && e.PEN != 0 {
				continue
			}
			g := mon.NewRNG(run.Seed, "jsonsweep"+proto, ei)
			l := uint16(wire.TypeSize(e.Type))
			if l == 0 {
				l = uint16(g.Range(1, 24))
			}
			t := &wire.Template{ID: 400, Fields: []wire.Field{{PEN: e.PEN, ID: e.ID, Len: l, Type: e.Type}}}
			var recs []wire.Record
			for k := 0; k < 12; k++ {
				recs = append(recs, wire.GenRecord(g, t, wire.GenOpts{Hostile: true}))
			}
			c := sweepCase(proto, t, recs, g)
			one(c, "sweep:"+e.Type, false)
			if e.Type == "boolean" && l == 1 {
				// "booleans" are named in the statement's quantifier: the JSON boolean is anchored to the wire
				// octet (RFC 7011 6.1.5: 1 = true, anything else is not true), not only to the decoder's word
				run.Add("boolean_values_anchored_to_the_wire", int64(len(recs)))
				if w := boolAnchor(c.Output, recs); w != "" {
					run.Violation("json:"+proto+":boolean-differs-from-the-wire", fmt.Sprintf("element %d/%d (%s): %s", e.PEN, e.ID, e.Name, w), c)
				}
			}
		}
	}
	// every nasty string on its own, as fixed-length and variable-length string
	for si := 0; si < 64; si++ {
		g := mon.NewRNG(run.Seed, "nasty", si)
		raw := wire.GenValue(g, "string", g.Range(1, 40), true)
		for _, vl := range []bool{false, true} {
			f := wire.Field{ID: 82, Len: uint16(len(raw)), Type: "string"} // interfaceName
			if vl {
				f.Len = 65535
			}
			t := &wire.Template{ID: 401, Fields: []wire.Field{f, {ID: 4, Len: 1, Type: "unsigned8"}}}
			c := sweepCase("ipfix", t, []wire.Record{{{Raw: raw}, {Raw: []byte{7}}}}, g)
			one(c, fmt.Sprintf("nasty:%d:%v", si, vl), false)
		}
	}
	// "strings" are named in the statement's quantifier as well: the published text is anchored to the octets on the
	// wire (round 13, C05-m: a decode that collapses a run of non-UTF-8 octets into one replacement is carried
	// "faithfully" by the encoder and still shortens what the exporter sent)
	adj := [][]byte{[]byte("Gr\xf6\xdfe"), []byte("\xff\xfeA\x00B"), []byte("\xc0\xc1\xf5\xf8"), []byte("ab\xe2\x82"), []byte("\xfc\xfd\xfe\xffz"),
		[]byte("x\xf6y\xdf\xfcz"), []byte("\xa0\xa1"), []byte("caf\xe9\xe8 \"q\" \\ \xed\xa0\x80")}
	for si := 0; si < 64+len(adj); si++ {
		g := mon.NewRNG(run.Seed, "anchored-string", si)
		var raw []byte
		if si < len(adj) {
			raw = adj[si]
		} else {
			raw = wire.GenValue(g, "string", g.Range(2, 40), true)
			if g.Chance(1, 2) { // a run of octets that can never occur in UTF-8
				at, n := g.Intn(len(raw)), g.Range(2, 5)
				for k := at; k < at+n && k < len(raw); k++ {
					raw[k] = []byte{0xff, 0xfe, 0xf8, 0xc0, 0xc1, 0xf6}[g.Intn(6)]
				}
			}
		}
		for _, pv := range []struct {
			proto string
			vl    bool
		}{{"ipfix", false}, {"ipfix", true}, {"nf9", false}} {
			f := wire.Field{ID: 83, Len: uint16(len(raw)), Type: "string"} // interfaceDescription (82 is retyped by the installed file)
			if pv.vl {
				f.Len = 65535
			}
			t := &wire.Template{ID: 402, Fields: []wire.Field{f}}
			rec := []wire.Record{{{Raw: raw}}}
			if pv.proto == "nf9" && len(raw) < 4 {
				continue
			}
			c := sweepCase(pv.proto, t, rec, g)
			one(c, fmt.Sprintf("anchored-string:%d:%s:%v", si, pv.proto, pv.vl), false)
			run.Add("string_values_anchored_to_the_wire", 1)
			if w := stringAnchor(c.Output, raw); w != "" {
				run.Violation("json:"+pv.proto+":string-differs-from-the-wire", w, c)
			}
		}
	}
	n := run.Pick(40000, 2000000)
	mon.ParallelFor(n, func(i int) {
		g := mon.NewRNG(run.Seed, "json", i)
		switch i % 8 {
		case 0, 1, 2:
			o := wire.GenOpts{Elems: all, Varlen: true, Reduced: true, Options: true, MaxFields: 10, Hostile: true,
				ForceTypes: pickTypes(g)}
			fc := wire.GenFlowCase(g, "ipfix", o)
			c := &jsonCase{Proto: "ipfix", Elements: true, Addr: mon.Hex(fc.Addr)}
			for _, d := range fc.Dgrams {
				c.Dgrams = append(c.Dgrams, mon.Hex(d))
			}
			one(c, fc.Desc, i < 3)
		case 3, 4:
			o := wire.GenOpts{Elems: snap, Reduced: true, Options: true, MaxFields: 10, Hostile: true, ForceTypes: pickTypes(g)}
			fc := wire.GenFlowCase(g, "nf9", o)
			c := &jsonCase{Proto: "nf9", Elements: true, Addr: mon.Hex(fc.Addr)}
			for _, d := range fc.Dgrams {
				c.Dgrams = append(c.Dgrams, mon.Hex(d))
			}
			one(c, fc.Desc, i < 5)
		case 5:
			cnt := g.Range(1, 30)
			c := &jsonCase{Proto: "nf5", Addr: mon.Hex(wire.GenAddr(g)), Dgrams: []string{mon.Hex(wire.GenNf5(g, 5, cnt, 0))}}
			one(c, fmt.Sprintf("count=%d", cnt), i < 8)
		default:
			d := wire.GenSFDatagram(g, true)
			desc, _ := sfDesc(d)
			c := &jsonCase{Proto: "sflow", Dgrams: []string{mon.Hex(d.Encode())}}
			one(c, desc, i < 8)
			// the JSON is compared with the decoded datagram above; the decoded datagram is anchored to the octets
			// sent here (the C07 comparator), so that "as decoded" cannot drift away from the wire unnoticed
			sc := &sfCase{Dgram: c.Dgrams[0], Expect: flattenModel(d, nil), Desc: desc}
			run.Add("sflow_documents_anchored_to_the_wire", 1)
			if k, w := runSFCase(sc); k != "" {
				run.Violation("json:sflow:differs-from-the-wire:"+k, w, sc)
			}
		}
	})
	// canaries: the validators must reject what D7 used to produce
	for _, bad := range []string{`{"AgentID":"1.1.1.1","Header":{"Version":10,"Length":1,"ExportTime":1,"SequenceNo":1,"DomainID":1},"DataSets":[[{"I":1,"V":}]]}`,
		`{"AgentID":"1.1.1.1","Header":{"Version":10,"Length":1,"ExportTime":1,"SequenceNo":1,"DomainID":1},"DataSets":[[{"I":1,"V":"a"b"}]]}`,
		`{"AgentID":"1.1.1.1","Header":{"Version":10,"Length":1,"ExportTime":1,"SequenceNo":1,"DomainID":1},"DataSets":[[{"I":1,"V":NaN}]]}`} {
		if k, _ := checkFlowJSON([]byte(bad), "1.1.1.1", []string{"Version", "Length", "ExportTime", "SequenceNo", "DomainID"}, []uint32{10, 1, 1, 1, 1}, [][]fieldView{{{1, 0, uint8(1)}}}, true); k == "" {
			run.HarnessError("canary: validator accepted " + bad)
		}
	}
	if k, _ := checkFlowJSON([]byte(`{"AgentID":"1.1.1.1","Header":{"Version":10,"Length":1,"ExportTime":1,"SequenceNo":1,"DomainID":1},"DataSets":[[{"I":1,"V":2}]]}`), "1.1.1.1", []string{"Version", "Length", "ExportTime", "SequenceNo", "DomainID"}, []uint32{10, 1, 1, 1, 1}, [][]fieldView{{{1, 0, uint8(1)}}}, true); k == "" {
		run.HarnessError("canary: validator accepted a wrong value")
	}
	run.SetRule("all four protocols: generated well-formed messages with hostile contents (strings with quotes, backslashes, C0 controls, DEL, '%' verbs, invalid and overlong UTF-8; NaN/±Inf/-0/subnormal floats; booleans 0,1,2,3,255; 64-bit extremes; reduced-length raw octets; IPv4/mapped/IPv6 exporters) are decoded by the real decoder and marshalled by the real marshaller; the output must be one valid JSON document whose parsed content (UseNumber) equals the decoded Go value member by member (exact decimals, floats at their precision, strings after unescape, addresses in canonical text, octets as 0x-hex; sFlow under encoding/json's mapping). Sweep: every element of the model × 12 hostile contents; 64 nasty strings fixed- and variable-length. distinct = structural descriptor per protocol; non-trivial = at least one document was produced and checked")
	run.Assume("NaN/±Inf cannot be JSON numbers: required are a valid document and a non-number value")
	run.Assume("invalid UTF-8 cannot be carried by JSON: compared outside U+FFFD replacements")
	run.Finish()
}

func pickTypes(g *mon.RNG) []string {
	pool := []string{"string", "float32", "float64", "boolean", "signed64", "unsigned64", "macAddress", "ipv6Address", "ipv4Address", "octetArray", "signed8", "dateTimeMilliseconds"}
	var out []string
	for k := g.Intn(3); k > 0; k-- {
		out = append(out, pool[g.Intn(len(pool))])
	}
	return out
}

// boolAnchor compares the V of every one-field record of a published document with the octet sent.
// textItems cuts a text into its well-formed stretches and the gaps between them. For the octets on the wire a gap is a
// run of octets that are not UTF-8 (lo = the octets that cannot continue a sequence, at least 1: every such octet is
// a maximal ill-formed subpart of its own under every replacement practice; hi = all octets of the run); for a
// published text a gap is a run of U+FFFD (lo = hi = their number).
type textItem struct {
	part   string
	lo, hi int
}

func textItems(s string, published bool) []textItem {
	var it []textItem
	gap := false
	for len(s) > 0 {
		r, n := utf8.DecodeRuneInString(s)
		bad := r == utf8.RuneError && n <= 1
		if published {
			bad = r == 0xFFFD
		}
		if bad {
			if !gap {
				it = append(it, textItem{})
				gap = true
			}
			x := &it[len(it)-1]
			x.hi++
			if published || s[0] < 0x80 || s[0] > 0xbf {
				x.lo++
			}
		} else {
			if gap || len(it) == 0 {
				it = append(it, textItem{part: ""})
				gap = false
				it[len(it)-1].lo = -1
			}
			it[len(it)-1].part += s[:n]
		}
		s = s[n:]
	}
	return it
}

// stringAnchor compares the single published string of the document with the octets that were sent.
func stringAnchor(out string, raw []byte) string {
	if strings.Contains(string(raw), "\uFFFD") {
		return "" // a well-formed U+FFFD on the wire cannot be told from a replacement
	}
	var doc struct {
		DataSets [][]struct {
			V interface{} `json:"V"`
		}
	}
	if err := json.Unmarshal([]byte(out), &doc); err != nil || len(doc.DataSets) != 1 || len(doc.DataSets[0]) != 1 {
		return ""
	}
	got, ok := doc.DataSets[0][0].V.(string)
	if !ok {
		return fmt.Sprintf("the octets %q are published as %v, not a string", raw, doc.DataSets[0][0].V)
	}
	w, p := textItems(string(raw), false), textItems(got, true)
	bad := len(w) != len(p)
	for i := 0; !bad && i < len(w); i++ {
		if (w[i].lo < 0) != (p[i].lo < 0) {
			bad = true
		} else if w[i].lo < 0 {
			bad = w[i].part != p[i].part
		} else {
			lo := w[i].lo
			if lo < 1 {
				lo = 1
			}
			bad = p[i].hi < lo || p[i].hi > w[i].hi
		}
	}
	if bad {
		return fmt.Sprintf("the octets %q are published as %q: the well-formed stretches differ, or a run of ill-formed octets is not replaced by between (its octets that cannot continue a sequence) and (all its octets) U+FFFD", raw, got)
	}
	return ""
}

func boolAnchor(out string, recs []wire.Record) string {
	var doc struct {
		DataSets [][]struct {
			V interface{} `json:"V"`
		}
	}
	if err := json.Unmarshal([]byte(out), &doc); err != nil {
		return ""
	}
	if len(doc.DataSets) != len(recs) {
		return ""
	}
	for i, r := range doc.DataSets {
		if len(r) != 1 || len(recs[i]) != 1 || len(recs[i][0].Raw) != 1 {
			return ""
		}
		want := recs[i][0].Raw[0] == 1
		if b, ok := r[0].V.(bool); !ok || b != want {
			return fmt.Sprintf("record %d was sent with the octet %#02x and is published as %v", i, recs[i][0].Raw[0], r[0].V)
		}
	}
	return ""
}

func sweepCase(proto string, t *wire.Template, recs []wire.Record, g *mon.RNG) *jsonCase {
	addr := wire.GenAddr(g)
	ds := wire.Set{Kind: wire.SetData, Tpl: t, SetID: t.ID, Records: recs}
	ts := []wire.Set{{Kind: wire.SetTemplate, Templates: []*wire.Template{t}}}
	c := &jsonCase{Proto: proto, Elements: true, Addr: mon.Hex(addr)}
	if proto == "ipfix" {
		m1 := wire.Msg{Sets: ts}
		m2 := wire.Msg{Sets: []wire.Set{ds}}
		c.Dgrams = []string{mon.Hex(m1.Encode()), mon.Hex(m2.Encode())}
	} else {
		for wire.SetLen(&ds)%4 != 0 && ds.Pad < 3 && ds.Pad+1 < t.MinRecLen() {
			ds.Pad++
		}
		m1 := wire.Nf9Msg{Sets: ts}
		m2 := wire.Nf9Msg{Sets: []wire.Set{ds}}
		c.Dgrams = []string{mon.Hex(m1.Encode()), mon.Hex(m2.Encode())}
	}
	return c
}
