package main

import (
	"encoding/json"
	"fmt"
	"os"
	"path/filepath"
	"regexp"

	"github.com/EdgeCast/vflow/ipfix"
	netflow9 "github.com/EdgeCast/vflow/netflow/v9"

	"verif/harness/mon"
	"verif/harness/wire"
)

type metaCase struct {
	Proto     string   `json:"proto"`
	Addr      string   `json:"exporter"`
	Pre       []string `json:"earlier_datagrams"`
	Base      string   `json:"complete_datagram"`
	Perturbed string   `json:"perturbed_datagram"`
	Kind      string   `json:"kind"` // insert:<what> | truncate
	Detail    string   `json:"detail"`
	BaseRecs  []string `json:"records_of_complete,omitempty"`
	GotRecs   []string `json:"records_of_perturbed,omitempty"`
	Err       string   `json:"decoder_error,omitempty"`
}

// decodeOn decodes pre then dgram on a fresh cache and returns the records of dgram.
func decodeOn(proto string, addr []byte, pre [][]byte, dgram []byte) (recs []string, d decoded) {
	if proto == "ipfix" {
		cache := ipfix.GetCache("")
		for _, p := range pre {
			decodeIPFIX(addr, p, cache)
		}
		d, _ = decodeIPFIX(addr, dgram, cache)
	} else {
		cache := netflow9.GetCache("")
		for _, p := range pre {
			decodeNF9(addr, p, cache)
		}
		d, _ = decodeNF9(addr, dgram, cache)
	}
	for _, r := range d.Records {
		recs = append(recs, recStr(r))
	}
	return
}

func runMeta(c *metaCase) (string, string) {
	return runMetaBase(c, nil, nil)
}

// runMetaBase is runMeta with the decode of the complete datagram optionally supplied by the caller
// (the truncation sweeps decode it once per message, not once per cut).
func runMetaBase(c *metaCase, preBase []string, preBD *decoded) (string, string) {
	addr := mon.UnHex(c.Addr)
	var pre [][]byte
	for _, p := range c.Pre {
		pre = append(pre, mon.UnHex(p))
	}
	var base []string
	var bd decoded
	if preBD != nil {
		base, bd = preBase, *preBD
	} else {
		base, bd = decodeOn(c.Proto, addr, pre, mon.UnHex(c.Base))
	}
	got, gd := decodeOn(c.Proto, addr, pre, mon.UnHex(c.Perturbed))
	c.BaseRecs, c.GotRecs, c.Err = base, got, gd.Err
	if bd.Panic != "" || gd.Panic != "" {
		return "panic", bd.Panic + gd.Panic
	}
	if c.Kind == "truncate" {
		if len(got) > len(base) {
			return "truncate:invented", fmt.Sprintf("%s: truncated datagram yields %d records, the complete one %d", c.Detail, len(got), len(base))
		}
		for i := range got {
			if got[i] != base[i] {
				return "truncate:altered", fmt.Sprintf("%s: record %d of the truncated datagram is %s, the complete datagram has %s", c.Detail, i, got[i], base[i])
			}
		}
		return "", ""
	}
	if gd.Nil && !bd.Nil {
		return c.Kind + ":message-lost", fmt.Sprintf("%s: the whole message was rejected (%s); without the inserted set it yields %d records", c.Detail, gd.Err, len(base))
	}
	if len(got) != len(base) {
		return c.Kind + ":record-count", fmt.Sprintf("%s: %d records with the inserted set, %d without (decoder error: %s)", c.Detail, len(got), len(base), gd.Err)
	}
	for i := range got {
		if got[i] != base[i] {
			return c.Kind + ":record-altered", fmt.Sprintf("%s: record %d is %s with the inserted set and %s without", c.Detail, i, got[i], base[i])
		}
	}
	return "", ""
}

func metaMain(args mon.Args) {
	run := mon.NewRun("C09", "wirecheck/meta", "exploration")
	if args.Replay != "" {
		d, err := mon.LoadReplay(args.Replay)
		if err != nil {
			run.HarnessError(err.Error())
			run.Finish()
		}
		var c metaCase
		json.Unmarshal(d.Case, &c)
		run.Eval(1)
		run.DistinctBulk(2)
		if k, w := runMeta(&c); k != "" {
			run.Violation(d.Signature, w, c)
		} else {
			fmt.Println("replay: the case no longer violates")
		}
		run.Finish()
	}
	snap, err := wire.LoadSnapshot(mon.Root())
	if err != nil {
		run.HarnessError(err.Error())
		run.Finish()
	}
	n := run.Pick(1200, 40000)
	// pass "trimmed": the site's ipfix.elements file OMITS elements the built-in table has; with it installed those
	// elements are "missing from the information model" although the code knows them from elsewhere
	omitted := map[uint16]uint16{2: 8, 85: 8, 86: 8, 136: 1, 148: 8} // element id -> encoded length
	var snapTrimmed []wire.Elem
	for _, e := range snap {
		if _, om := omitted[e.ID]; !(om && e.PEN == 0) {
			snapTrimmed = append(snapTrimmed, e)
		}
	}
	stream, elems, trimmed := "meta", snap, false
	body := func(i int) {
		g := mon.NewRNG(run.Seed, stream, i)
		proto := []string{"ipfix", "nf9"}[i%2]
		o := wire.GenOpts{Elems: elems, Varlen: proto == "ipfix", Reduced: true, Options: true, MaxFields: 8, MaxStrLen: 20}
		fc := wire.GenFlowCase(g, proto, o)
		last := len(fc.Dgrams) - 1
		if len(fc.Expect[last]) == 0 {
			return
		}
		// a template that uses an element missing from the information model, announced beforehand
		used := map[uint16]bool{}
		for _, t := range fc.Templates {
			used[t.ID] = true
		}
		tuID := uint16(g.Range(256, 65535))
		for used[tuID] {
			tuID = uint16(g.Range(256, 65535)) // not id+1: 65535+1 is set id 0
		}
		used[tuID] = true
		tu := &wire.Template{ID: tuID}
		miss := wire.Field{ID: uint16(g.Range(20000, 32000)), Len: uint16(g.Range(1, 8)), Type: "?"}
		if trimmed {
			ids := []uint16{2, 85, 86, 136, 148}
			id := ids[g.Intn(len(ids))]
			miss = wire.Field{ID: id, Len: omitted[id], Type: "?"}
		} else if proto == "ipfix" && g.Bool() {
			miss = wire.Field{PEN: uint32(g.Range(70000, 90000)), ID: uint16(g.Range(1, 500)), Len: uint16(g.Range(1, 8)), Type: "?"}
		}
		known1 := wire.FieldOf(g, snap[g.Intn(40)], wire.GenOpts{})
		for known1.Len == 0 {
			known1 = wire.FieldOf(g, snap[g.Intn(40)], wire.GenOpts{})
		}
		tuKind := wire.SetTemplate
		switch g.Intn(5) {
		case 0:
			tu.Fields = []wire.Field{miss, known1}
		case 1:
			tu.Fields = []wire.Field{known1, miss}
		case 2: // options template, the missing element in a scope position
			tu.Options, tuKind = true, wire.SetOptTemplate
			tu.Scope, tu.Fields = []wire.Field{miss}, []wire.Field{known1}
		case 3: // options template, scope known, option field missing
			tu.Options, tuKind = true, wire.SetOptTemplate
			tu.Scope, tu.Fields = []wire.Field{known1}, []wire.Field{miss}
		default: // options template, second scope field missing
			tu.Options, tuKind = true, wire.SetOptTemplate
			tu.Scope, tu.Fields = []wire.Field{known1, miss}, []wire.Field{known1}
		}
		if proto == "nf9" {
			// v9 field types carry no enterprise number
			for i := range tu.Scope {
				tu.Scope[i].PEN = 0
			}
			for i := range tu.Fields {
				tu.Fields[i].PEN = 0
			}
		}
		tuSet := wire.Set{Kind: tuKind, Templates: []*wire.Template{tu}}
		if proto == "nf9" {
			tuSet.Pad = (4 - wire.SetLen(&tuSet)%4) % 4
		}
		tuD, _ := wire.EncodeFlow(proto, []uint32{1, 2, 3, 4}, []wire.Set{tuSet})
		pre := append([][]byte{tuD}, fc.Dgrams[:last]...)
		var preHex []string
		for _, p := range pre {
			preHex = append(preHex, mon.Hex(p))
		}
		baseSets := fc.SetsPer[last]
		base := fc.Dgrams[last]
		baseRecs, baseD := decodeOn(proto, fc.Addr, pre, base)
		mk := func(kind, detail string, pert []byte) {
			c := &metaCase{Proto: proto, Addr: mon.Hex(fc.Addr), Pre: preHex, Base: mon.Hex(base), Perturbed: mon.Hex(pert), Kind: kind, Detail: detail}
			run.Eval(1)
			if k, w := runMetaBase(c, baseRecs, &baseD); k != "" {
				run.Violation("meta:"+proto+":"+k, w, c)
			} else if run.WantSample() && kind != "truncate" {
				run.Sample(map[string]interface{}{"proto": proto, "kind": kind, "detail": detail, "complete": c.Base, "perturbed": c.Perturbed, "records": len(c.BaseRecs)})
			}
		}
		// insertion: every position × every kind
		for p := 0; p <= len(baseSets); p++ {
			for _, kind := range []string{"reserved", "unknown-template", "missing-element"} {
				u := wire.Set{Kind: wire.SetRaw, RawBody: g.Bytes(g.Intn(65))}
				switch kind {
				case "reserved":
					lo := 4
					if proto == "nf9" {
						lo = 2
					}
					u.SetID = uint16(g.Range(lo, 255))
					if g.Chance(1, 4) {
						u.SetID = []uint16{uint16(lo), uint16(lo + 1), 255, 254}[g.Intn(4)]
					}
				case "unknown-template":
					id := uint16(g.Range(256, 65535))
					for used[id] {
						id = uint16(g.Range(256, 65535)) // not id+1: 65535+1 is set id 0
					}
					u.SetID = id
				case "missing-element":
					u.SetID = tuID
					if g.Chance(1, 2) {
						u.RawBody = g.Bytes(g.Range(tu.MinRecLen(), 64))
					}
				}
				nested := false
				if kind != "reserved" && g.Chance(1, 3) {
					// hostile body: the octets of the undecodable set are themselves a complete, valid data set of a
					// template this exporter has announced - they must never be read as a set of their own
					for _, bs := range baseSets {
						if bs.Kind == wire.SetData {
							one := bs
							one.Records = one.Records[:1]
							one.Pad = 0
							enc, _ := wire.EncodeFlow(proto, []uint32{0, 0, 0, 0}, []wire.Set{one})
							hl := 16
							if proto == "nf9" {
								hl = 20
							}
							if len(enc)-hl <= 200 {
								u.RawBody = append(append([]byte{}, enc[hl:]...), g.Bytes(g.Intn(4))...)
								nested = true
							}
							break
						}
					}
				}
				sets := append(append(append([]wire.Set{}, baseSets[:p]...), u), baseSets[p:]...)
				pert, _ := wire.EncodeFlow(proto, fc.HdrRaw[last], sets)
				if len(pert) > 65000 {
					continue
				}
				run.Distinct(fmt.Sprintf("%s|%s|pos%d/%d|body%d|nested%v|opt%v", proto, kind, p, len(baseSets), len(u.RawBody)%8, nested, tu.Options && kind == "missing-element"))
				run.Add("insertions", 1)
				detail := fmt.Sprintf("set id %d with %d body octets (valid nested set: %v) inserted before set #%d of %d", u.SetID, len(u.RawBody), nested, p, len(baseSets))
				mk("insert:"+kind, detail, pert)
				// truncation of the perturbed message at every cut inside and just after the inserted set: what is
				// emitted must still be a prefix of what the complete (perturbed = original) message yields
				before, _ := wire.EncodeFlow(proto, fc.HdrRaw[last], sets[:p])
				from, to := len(before), len(before)+4+len(u.RawBody)+4
				if to > len(pert) {
					to = len(pert)
				}
				pb, pbd := decodeOn(proto, fc.Addr, pre, pert)
				for cut := from; cut <= to; cut++ {
					run.Add("truncations_inside_an_undecodable_set", 1)
					c := &metaCase{Proto: proto, Addr: mon.Hex(fc.Addr), Pre: preHex, Base: mon.Hex(pert), Perturbed: mon.Hex(pert[:cut]), Kind: "truncate",
						Detail: fmt.Sprintf("%s, then cut at octet %d of %d", detail, cut, len(pert))}
					run.Eval(1)
					if k, w := runMetaBase(c, pb, &pbd); k != "" {
						run.Violation("meta:"+proto+":"+k+":inside-undecodable-set", w, c)
					}
				}
			}
		}
		// many: 2..40 undecodable sets of mixed kinds spread over the message (a limit on errors or sets per
		// datagram must not cost the neighbours their records)
		for _, k := range []int{2, 7, 8, 9, 16, 40} {
			sets := append([]wire.Set{}, baseSets...)
			kinds := map[string]int{}
			for j := 0; j < k; j++ {
				u := wire.Set{Kind: wire.SetRaw, RawBody: g.Bytes(4 * g.Intn(4))}
				switch g.Intn(3) {
				case 0:
					lo := 4
					if proto == "nf9" {
						lo = 2
					}
					u.SetID = uint16(g.Range(lo, 255))
					kinds["reserved"]++
				case 1:
					id := uint16(g.Range(256, 65535))
					for used[id] {
						id = uint16(g.Range(256, 65535)) // not id+1: 65535+1 is set id 0
					}
					u.SetID = id
					kinds["unknown-template"]++
				default:
					u.SetID = tuID
					u.RawBody = g.Bytes(g.Range(tu.MinRecLen(), tu.MinRecLen()+12))
					if proto == "nf9" {
						u.Pad = (4 - (4+len(u.RawBody))%4) % 4
					}
					kinds["missing-element"]++
				}
				at := g.Intn(len(sets) + 1)
				if j == k-1 {
					at = 0 // the last one goes to the front: everything decodable comes after all of them
					if g.Bool() {
						at = g.Intn(len(sets) + 1)
					}
				}
				sets = append(append(append([]wire.Set{}, sets[:at]...), u), sets[at:]...)
			}
			pert, _ := wire.EncodeFlow(proto, fc.HdrRaw[last], sets)
			if len(pert) > 65000 {
				continue
			}
			run.Distinct(fmt.Sprintf("%s|many%d|%d", proto, k, len(baseSets)))
			run.Add("insertions_of_many_undecodable_sets", 1)
			mk("insert:many", fmt.Sprintf("%d undecodable sets %v spread over the %d sets of the message", k, kinds, len(baseSets)), pert)
		}
		// announced later: a data set of id Y arrives before the set that first announces Y in the same message.
		// At that point it is a set of an unknown template; the later template set and the data sets of Y
		// behind it must be decoded exactly as if the early set were absent.
		for _, ds := range baseSets {
			if ds.Kind != wire.SetData || ds.Tpl == nil || len(ds.Records) == 0 {
				continue
			}
			yID := uint16(g.Range(256, 65535))
			for used[yID] {
				yID = uint16(g.Range(256, 65535)) // not id+1: 65535+1 is set id 0
			}
			used[yID] = true
			tY := *ds.Tpl
			tY.ID = yID
			tY.Scope = append([]wire.Field{}, ds.Tpl.Scope...)
			tY.Fields = append([]wire.Field{}, ds.Tpl.Fields...)
			kY := wire.SetTemplate
			if tY.Options {
				kY = wire.SetOptTemplate
			}
			tSet := wire.Set{Kind: kY, Templates: []*wire.Template{&tY}}
			if proto == "nf9" {
				tSet.Pad = (4 - wire.SetLen(&tSet)%4) % 4
			}
			dSet := wire.Set{Kind: wire.SetData, Tpl: &tY, SetID: yID, Records: ds.Records, Pad: ds.Pad}
			ext := append(append([]wire.Set{}, baseSets...), tSet, dSet)
			base2, _ := wire.EncodeFlow(proto, fc.HdrRaw[last], ext)
			if len(base2) > 60000 {
				break
			}
			recs2, d2 := decodeOn(proto, fc.Addr, pre, base2)
			if len(recs2) != len(baseRecs)+len(ds.Records) {
				break // the late template is not usable by itself (e.g. unknown elements): nothing to compare
			}
			one := wire.EncodeRecord(&tY, ds.Records[0])
			for p := 0; p <= len(baseSets); p++ {
				u := wire.Set{Kind: wire.SetRaw, SetID: yID, RawBody: g.Bytes(g.Intn(65))}
				if g.Bool() {
					u.RawBody = append([]byte{}, one...)
				}
				if proto == "nf9" {
					u.Pad = (4 - (4+len(u.RawBody))%4) % 4
				}
				sets := append(append(append([]wire.Set{}, ext[:p]...), u), ext[p:]...)
				pert, _ := wire.EncodeFlow(proto, fc.HdrRaw[last], sets)
				run.Distinct(fmt.Sprintf("%s|announced-later|pos%d/%d|opt%v", proto, p, len(baseSets), tY.Options))
				run.Add("insertions_of_a_set_whose_template_is_announced_later_in_the_message", 1)
				c := &metaCase{Proto: proto, Addr: mon.Hex(fc.Addr), Pre: preHex, Base: mon.Hex(base2), Perturbed: mon.Hex(pert), Kind: "insert:announced-later",
					Detail: fmt.Sprintf("data set of id %d (%d body octets) inserted before set #%d of %d; template %d is first announced by set #%d of the same message", yID, len(u.RawBody), p, len(ext), yID, len(baseSets))}
				run.Eval(1)
				if k, w := runMetaBase(c, recs2, &d2); k != "" {
					run.Violation("meta:"+proto+":"+k, w, c)
				}
			}
			break
		}
		// truncation: every cut (stride on very long messages)
		step := 1
		if len(base) > 3000 {
			step = len(base) / 1500
		}
		for cut := 0; cut <= len(base); cut += step {
			run.Add("truncations", 1)
			mk("truncate", fmt.Sprintf("cut at octet %d of %d", cut, len(base)), base[:cut])
		}
		run.Distinct(fmt.Sprintf("%s|truncate|%s|%v", proto, fc.Desc, trimmed))
	}
	mon.ParallelFor(n, body)
	{
		shipped, err := os.ReadFile(filepath.Join(mon.RepoDir(), "scripts", "ipfix.elements"))
		if err != nil {
			run.HarnessError(err.Error())
			run.Finish()
		}
		content := shipped
		for id := range omitted {
			re := regexp.MustCompile(fmt.Sprintf(`(?m)^  %d:\n  - \S+\n  - \S+\n`, id))
			if loc := re.FindIndex(content); loc != nil {
				content = append(append([]byte{}, content[:loc[0]]...), content[loc[1]:]...)
			} else {
				run.HarnessError(fmt.Sprintf("element %d not found in the shipped elements file", id))
			}
		}
		dir := filepath.Join(os.Getenv("VERIF_RUN"), "trimmed-elements")
		os.MkdirAll(dir, 0o755)
		os.WriteFile(filepath.Join(dir, "ipfix.elements"), content, 0o644)
		orig := ipfix.InfoModel
		if err := ipfix.LoadExtElements(dir); err != nil {
			run.HarnessError("LoadExtElements(trimmed): " + err.Error())
		} else {
			stream, elems, trimmed = "meta-trimmed", snapTrimmed, true
			mon.ParallelFor(n/4, body)
			run.Add("messages_checked_with_a_trimmed_elements_file_installed", int64(n/4))
		}
		ipfix.InfoModel = orig
	}
	// canary: the comparator must notice an altered record
	{
		c := &metaCase{Proto: "ipfix", Kind: "insert:canary"}
		g := mon.NewRNG(run.Seed, "canary", 3)
		fc := wire.GenFlowCase(g, "ipfix", wire.GenOpts{Elems: snap[:40], MaxFields: 3})
		last := len(fc.Dgrams) - 1
		for _, p := range fc.Dgrams[:last] {
			c.Pre = append(c.Pre, mon.Hex(p))
		}
		c.Addr = mon.Hex(fc.Addr)
		c.Base = mon.Hex(fc.Dgrams[last])
		pert := append([]byte{}, fc.Dgrams[last]...)
		pert[len(pert)-1] ^= 0xff
		pert[len(pert)-3] ^= 0xff
		c.Perturbed = mon.Hex(pert)
		if k, _ := runMeta(c); k == "" && len(fc.Expect[last]) > 0 && fc.SetsPer[last][len(fc.SetsPer[last])-1].Pad == 0 {
			run.HarnessError("canary: comparator accepted an altered record")
		}
	}
	run.SetRule("metamorphic over the real decoders (IPFIX and NetFlow v9, fresh identically pre-loaded caches): for a generated well-formed message M, (1) at EVERY position between sets a length-consistent undecodable set is inserted - reserved id (ipfix 4..255, v9 2..255), unknown template id, or a known template that uses an element missing from the information model (an id no table has, or - in a second pass with a site elements file installed that omits five built-in elements - one of those) - with 0..64 random body octets, (1a) 2, 7, 8, 9, 16 and 40 undecodable sets of mixed kinds spread over one message, and (1b) a data set of an id that the same message announces only later, placed at every position before that announcement: records must equal those of M exactly and in order and the message must not be rejected; (2) for EVERY cut 0..len(M) the records of M[:cut] must be a prefix of the records of M. distinct = (protocol, kind, position, body length class) / message shape")
	run.Assume("IPFIX set ids 0 and 1 are 'not used' rather than reserved and are not inserted")
	run.Finish()
}
