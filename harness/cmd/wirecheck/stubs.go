package main

import "verif/harness/mon"

func jsonMain(args mon.Args) { panic("todo") }
func metaMain(args mon.Args) { panic("todo") }
