package main
