package main

import "verif/harness/mon"

func jsonMain(args mon.Args)               { panic("todo") }
func sflowMain(args mon.Args, prop string) { panic("todo") }
func nf5Main(args mon.Args)                { panic("todo") }
func metaMain(args mon.Args)               { panic("todo") }
