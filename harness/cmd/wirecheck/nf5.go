package main

import (
	"bytes"
	"encoding/json"
	"fmt"
	"net"
	"reflect"

	netflow5 "github.com/EdgeCast/vflow/netflow/v5"

	"verif/harness/mon"
	"verif/harness/wire"
)

type nf5Case struct {
	Addr  string `json:"exporter"`
	Dgram string `json:"datagram"`
	Desc  string `json:"desc"`
}

func dotted(v uint32) string {
	return fmt.Sprintf("%d.%d.%d.%d", v>>24, (v>>16)&0xff, (v>>8)&0xff, v&0xff)
}

// checkNf5 decodes one datagram and compares with what the wire says. The expectation is derived
// from the octets by the harness's own parser (positions from the v5 format), not from vflow.
func checkNf5(addr, b []byte) (kind, what string) {
	return compareNf5(addr, b, b)
}

// compareNf5 decodes dgram and compares the result with what the octets b say (b == dgram except
// in the canary, which feeds a deliberately different expectation).
func compareNf5(addr, dgram, b []byte) (kind, what string) {
	defer func() {
		if p := recover(); p != nil {
			kind, what = "panic", fmt.Sprint(p)
		}
	}()
	msg, err := netflow5.NewDecoder(net.IP(addr), dgram).Decode()
	u16 := func(o int) uint64 { return uint64(b[o])<<8 | uint64(b[o+1]) }
	u32 := func(o int) uint64 { return u16(o)<<16 | u16(o+2) }
	valid := len(b) >= 24 && u16(0) == 5 && u16(2) >= 1 && u16(2) <= 30 && len(b) >= 24+48*int(u16(2))
	if !valid {
		if msg != nil && len(msg.Flows) != 0 {
			return "flows-from-invalid", fmt.Sprintf("%d flows decoded from a packet that must yield none (len %d)", len(msg.Flows), len(b))
		}
		return "", ""
	}
	if msg == nil {
		return "nil-message", fmt.Sprintf("no message for a valid packet: %v", err)
	}
	cnt := int(u16(2))
	type kv struct {
		name string
		v    uint64
	}
	hdr := []kv{{"Version", u16(0)}, {"Count", u16(2)}, {"SysUpTimeMSecs", u32(4)}, {"UNIXSecs", u32(8)}, {"UNIXNSecs", u32(12)},
		{"SeqNum", u32(16)}, {"EngType", uint64(b[20])}, {"EngID", uint64(b[21])}, {"SmpInt", u16(22)}}
	hv := reflect.ValueOf(msg.Header)
	for _, f := range hdr {
		fv := hv.FieldByName(f.name)
		if !fv.IsValid() || fv.Uint() != f.v {
			return "header:" + f.name, fmt.Sprintf("header %s = %v, wire value %d", f.name, fv, f.v)
		}
	}
	if len(msg.Flows) != cnt {
		return "flow-count", fmt.Sprintf("%d flows decoded, header announces %d and the packet carries them", len(msg.Flows), cnt)
	}
	recFields := func(o int) []kv {
		return []kv{{"SrcAddr", u32(o)}, {"DstAddr", u32(o + 4)}, {"NextHop", u32(o + 8)}, {"Input", u16(o + 12)}, {"Output", u16(o + 14)},
			{"PktCount", u32(o + 16)}, {"L3Octets", u32(o + 20)}, {"StartTime", u32(o + 24)}, {"EndTime", u32(o + 28)},
			{"SrcPort", u16(o + 32)}, {"DstPort", u16(o + 34)}, {"Padding1", uint64(b[o+36])}, {"TCPFlags", uint64(b[o+37])},
			{"ProtType", uint64(b[o+38])}, {"Tos", uint64(b[o+39])}, {"SrcAsNum", u16(o + 40)}, {"DstAsNum", u16(o + 42)},
			{"SrcMask", uint64(b[o+44])}, {"DstMask", uint64(b[o+45])}, {"Padding2", u16(o + 46)}}
	}
	for i := 0; i < cnt; i++ {
		rv := reflect.ValueOf(msg.Flows[i])
		for _, f := range recFields(24 + 48*i) {
			fv := rv.FieldByName(f.name)
			if !fv.IsValid() || fv.Uint() != f.v {
				return "flow:" + f.name, fmt.Sprintf("flow %d %s = %v, wire value %d", i, f.name, fv, f.v)
			}
		}
	}
	// JSON
	out, jerr := msg.JSONMarshal(new(bytes.Buffer))
	if jerr != nil {
		return "json-error", jerr.Error()
	}
	if !json.Valid(out) {
		return "json-invalid", string(out)
	}
	var doc struct {
		AgentID string
		Header  map[string]json.Number
		Flows   []map[string]interface{}
	}
	dec := json.NewDecoder(bytes.NewReader(out))
	dec.UseNumber()
	if e := dec.Decode(&doc); e != nil {
		return "json-shape", e.Error()
	}
	if doc.AgentID != net.IP(addr).String() {
		return "json-agent", fmt.Sprintf("AgentID %q, exporter is %s", doc.AgentID, net.IP(addr))
	}
	for _, f := range hdr {
		if doc.Header[f.name].String() != fmt.Sprint(f.v) {
			return "json-header:" + f.name, fmt.Sprintf("JSON header %s = %s, wire value %d", f.name, doc.Header[f.name], f.v)
		}
	}
	if len(doc.Flows) != cnt {
		return "json-flow-count", fmt.Sprintf("%d flows in JSON, %d decoded", len(doc.Flows), cnt)
	}
	for i := 0; i < cnt; i++ {
		for _, f := range recFields(24 + 48*i) {
			got := doc.Flows[i][f.name]
			switch f.name {
			case "SrcAddr", "DstAddr", "NextHop":
				if s, ok := got.(string); !ok || s != dotted(uint32(f.v)) {
					return "json-flow:" + f.name, fmt.Sprintf("flow %d %s = %v in JSON, dotted form is %s", i, f.name, got, dotted(uint32(f.v)))
				}
			default:
				if n, ok := got.(json.Number); !ok || n.String() != fmt.Sprint(f.v) {
					return "json-flow:" + f.name, fmt.Sprintf("flow %d %s = %v in JSON, wire value %d", i, f.name, got, f.v)
				}
			}
		}
	}
	return "", ""
}

func nf5Main(args mon.Args) {
	run := mon.NewRun("C08", "wirecheck/nf5", "exploration")
	if args.Replay != "" {
		d, err := mon.LoadReplay(args.Replay)
		if err != nil {
			run.HarnessError(err.Error())
			run.Finish()
		}
		var c nf5Case
		json.Unmarshal(d.Case, &c)
		run.Eval(1)
		run.DistinctBulk(2)
		if k, w := checkNf5(mon.UnHex(c.Addr), mon.UnHex(c.Dgram)); k != "" {
			run.Violation(d.Signature, w, c)
		} else {
			fmt.Println("replay: the case no longer violates")
		}
		run.Finish()
	}
	one := func(g *mon.RNG, b []byte, desc string, sample bool) {
		addr := wire.GenAddr(g)
		run.Eval(1)
		valid := len(b) >= 24 && b[0] == 0 && b[1] == 5
		if valid {
			run.Distinct(desc)
		}
		if k, w := checkNf5(addr, b); k != "" {
			run.Violation("nf5:"+k, w, nf5Case{mon.Hex(addr), mon.Hex(b), desc})
		}
		if sample {
			run.Sample(nf5Case{mon.Hex(addr), mon.Hex(b), desc})
		}
	}
	// boundary grid, complete: count 0..40 × length delta −49..+49 × a few random fillings; version 0..10
	type cell struct{ count, delta int }
	var cells []cell
	for c := 0; c <= 40; c++ {
		for d := -49; d <= 49; d++ {
			cells = append(cells, cell{c, d})
		}
	}
	reps := run.Pick(20, 60)
	mon.ParallelFor(len(cells), func(i int) {
		c := cells[i]
		for r := 0; r < reps; r++ {
			g := mon.NewRNG(run.Seed, "nf5grid", i*100+r)
			one(g, wire.GenNf5(g, 5, c.count, c.delta), fmt.Sprintf("v5 count=%d delta=%d", c.count, c.delta), i == 1500 && r == 0)
		}
	})
	run.Add("grid_cells(count x length delta)", int64(len(cells)))
	for v := 0; v <= 10; v++ {
		for c := 0; c <= 31; c++ {
			g := mon.NewRNG(run.Seed, "nf5ver", v*100+c)
			one(g, wire.GenNf5(g, v, c, 0), fmt.Sprintf("version=%d count=%d", v, c), false)
		}
	}
	// count field extremes with plenty of data
	for _, c := range []int{0, 1, 30, 31, 32, 255, 256, 1000, 0x7fff, 0x8000, 0xffff} {
		g := mon.NewRNG(run.Seed, "nf5cnt", c)
		one(g, wire.GenNf5(g, 5, c, 0), fmt.Sprintf("v5 count=%d", c), false)
	}
	// the whole 16-bit count field: every value x datagrams that carry 0, 1, 2, 7 and 30 complete records (a count
	// outside 1..30, or one the datagram cannot back, yields no flows - whatever count x 48 comes to in 16 bits)
	mon.ParallelFor(65536/256, func(bi int) {
		g := mon.NewRNG(run.Seed, "nf5allcounts", bi)
		for c := bi * 256; c < bi*256+256; c++ {
			for _, recs := range []int{0, 1, 2, 7, 30} {
				b := wire.GenNf5(g, 5, recs, 0)
				if len(b) < 24+48*recs {
					continue
				}
				b = append([]byte{}, b[:24+48*recs]...)
				b[2], b[3] = byte(c>>8), byte(c)
				one(g, b, fmt.Sprintf("v5 count field %d over %d records", c, recs), false)
			}
		}
	})
	run.Add("count_field_values_swept", 65536)
	// every field position: one field differs from an all-zero / all-ones record (swap visibility)
	for cnt := 1; cnt <= 30; cnt += 29 {
		for off := 0; off < 24+48*cnt; off++ {
			for _, fill := range []byte{0x00, 0xff} {
				b := bytes.Repeat([]byte{fill}, 24+48*cnt)
				b[0], b[1], b[2], b[3] = 0, 5, 0, byte(cnt)
				if off >= 4 {
					b[off] = 0x5a
				}
				g := mon.NewRNG(run.Seed, "nf5pos", off)
				one(g, b, fmt.Sprintf("v5 count=%d octet %d distinguished fill %02x", cnt, off, fill), false)
			}
		}
	}
	n := run.Pick(50000, 1000000)
	mon.ParallelFor(n/100, func(bi int) {
		for k := 0; k < 100; k++ {
			g := mon.NewRNG(run.Seed, "nf5rand", bi*100+k)
			cnt := g.Range(1, 30)
			delta := 0
			if g.Chance(1, 3) {
				delta = g.Range(0, 200)
			}
			one(g, wire.GenNf5(g, 5, cnt, delta), fmt.Sprintf("v5 random count=%d trailing=%d", cnt, delta), false)
		}
	})
	// canary
	{
		g := mon.NewRNG(run.Seed, "canary", 0)
		b := wire.GenNf5(g, 5, 3, 0)
		if k, _ := checkNf5([]byte{1, 2, 3, 4}, b); k != "" {
			run.HarnessError("canary: a valid packet was reported: " + k)
		}
		for _, off := range []int{5, 21, 24 + 48 + 5, 24 + 2*48 + 47} {
			b2 := append([]byte{}, b...)
			b2[off] ^= 0x01
			if k, _ := compareNf5([]byte{1, 2, 3, 4}, b, b2); k == "" {
				run.HarnessError(fmt.Sprintf("canary: comparator accepted a wrong expectation at octet %d", off))
			}
		}
	}
	run.SetRule("complete grid: header count 0..40 × datagram length 24+48·count−49..+49 (short, exact, trailing octets) with random contents; versions 0..10 × counts 0..31; count-field extremes and every one of the 65536 count values over datagrams with 0/1/2/7/30 records; every octet position distinguished in otherwise uniform packets (field swaps visible); seeded random valid packets. Expectation parsed from the octets by the harness (fixed v5 offsets); decoded struct fields and the parsed JSON (numbers exact, three addresses dotted) compared. distinct = (version,count,length-delta / distinguished octet) descriptor of packets that announce version 5")
	run.Assume("JSON member names of the v5 message are the published format and are taken as given")
	run.Finish()
}
