package main

import (
	"encoding/json"
	"fmt"
	"net"
	"os"
	"path/filepath"
	"regexp"
	"strings"

	"github.com/EdgeCast/vflow/ipfix"
	netflow9 "github.com/EdgeCast/vflow/netflow/v9"

	"verif/harness/mon"
	"verif/harness/wire"
)

// decoded is the protocol-neutral view of a decoded message.
type decoded struct {
	Nil     bool
	Hdr     []uint32
	Agent   string
	Records [][]wire.ExpField
	Err     string
	Panic   string
}

func decodeIPFIX(addr, dgram []byte, cache ipfix.MemCache) (d decoded, msg *ipfix.Message) {
	defer func() {
		if p := recover(); p != nil {
			d.Panic = fmt.Sprint(p)
		}
	}()
	m, err := ipfix.NewDecoder(net.IP(addr), dgram).Decode(cache)
	if err != nil {
		d.Err = err.Error()
	}
	if m == nil {
		d.Nil = true
		return d, nil
	}
	d.Agent = m.AgentID
	d.Hdr = []uint32{uint32(m.Header.Version), uint32(m.Header.Length), m.Header.ExportTime, m.Header.SequenceNo, m.Header.DomainID}
	for _, ds := range m.DataSets {
		var r []wire.ExpField
		for _, f := range ds {
			r = append(r, wire.ExpField{ID: f.ID, PEN: f.EnterpriseNo, Canon: wire.Canon(f.Value)})
		}
		d.Records = append(d.Records, r)
	}
	return d, m
}

func decodeNF9(addr, dgram []byte, cache netflow9.MemCache) (d decoded, msg *netflow9.Message) {
	defer func() {
		if p := recover(); p != nil {
			d.Panic = fmt.Sprint(p)
		}
	}()
	m, err := netflow9.NewDecoder(net.IP(addr), dgram).Decode(cache)
	if err != nil {
		d.Err = err.Error()
	}
	if m == nil {
		d.Nil = true
		return d, nil
	}
	d.Agent = m.AgentID
	d.Hdr = []uint32{uint32(m.Header.Version), uint32(m.Header.Count), m.Header.SysUpTime, m.Header.UNIXSecs, m.Header.SeqNum, m.Header.SrcID}
	for _, ds := range m.DataSets {
		var r []wire.ExpField
		for _, f := range ds {
			r = append(r, wire.ExpField{ID: f.ID, Canon: wire.Canon(f.Value)})
		}
		d.Records = append(d.Records, r)
	}
	return d, m
}

// flowReplay is the serialisable form of a case.
type flowReplay struct {
	Proto    string     `json:"proto"`
	Elements bool       `json:"elements_file_loaded"`
	Addr     string     `json:"exporter"`
	Dgrams   []string   `json:"datagrams"`
	Hdr      [][]uint32 `json:"expected_header"`
	Expect   [][]string `json:"expected_records"`                  // per datagram, one string per record
	Restart  int        `json:"restart_before_datagram,omitempty"` // > 0: the cache is saved and loaded back before this datagram
	At       int        `json:"failing_datagram"`
	Got      []string   `json:"got_records,omitempty"`
	Err      string     `json:"decoder_error,omitempty"`
}

func recStr(r []wire.ExpField) string {
	var sb strings.Builder
	for _, f := range r {
		sb.WriteString(f.String())
	}
	return sb.String()
}

func toReplay(c *wire.FlowCase, elements bool) flowReplay {
	fr := flowReplay{Proto: c.Proto, Elements: elements, Addr: mon.Hex(c.Addr), Hdr: c.Hdr}
	for i := range c.Dgrams {
		fr.Dgrams = append(fr.Dgrams, mon.Hex(c.Dgrams[i]))
		var rs []string
		for _, r := range c.Expect[i] {
			rs = append(rs, recStr(r))
		}
		fr.Expect = append(fr.Expect, rs)
	}
	return fr
}

// compareRecords returns "" or (kind, description) of the first difference.
func compareRecords(exp []string, got [][]wire.ExpField) (string, string) {
	for i := 0; i < len(exp) && i < len(got); i++ {
		if g := recStr(got[i]); g != exp[i] {
			return "record-content", fmt.Sprintf("record %d: expected %s got %s", i, exp[i], g)
		}
	}
	if len(exp) != len(got) {
		return "record-count", fmt.Sprintf("expected %d records, decoder produced %d", len(exp), len(got))
	}
	return "", ""
}

// runFlowReplay decodes the datagrams of a case on a fresh cache and compares every datagram's
// header and records with the expectation.
func runFlowReplay(fr *flowReplay) (kind, what string) {
	addr := mon.UnHex(fr.Addr)
	var ic ipfix.MemCache
	var nc netflow9.MemCache
	if fr.Proto == "ipfix" {
		ic = ipfix.GetCache("")
	} else {
		nc = netflow9.GetCache("")
	}
	for i, h := range fr.Dgrams {
		var d decoded
		if fr.Restart > 0 && i == fr.Restart {
			// a collector restart between the announcement and the data: Dump + GetCache, as shutdown() and start-up do
			if f, err := os.CreateTemp(os.Getenv("VERIF_RUN"), "tplcache*.json"); err == nil {
				f.Close()
				if fr.Proto == "ipfix" {
					ic.Dump(f.Name())
					ic = ipfix.GetCache(f.Name())
				} else {
					nc.Dump(f.Name())
					nc = netflow9.GetCache(f.Name())
				}
				os.Remove(f.Name())
			}
		}
		if fr.Proto == "ipfix" {
			d, _ = decodeIPFIX(addr, mon.UnHex(h), ic)
		} else {
			d, _ = decodeNF9(addr, mon.UnHex(h), nc)
		}
		fr.At = i
		fr.Err = d.Err
		fr.Got = nil
		for _, r := range d.Records {
			fr.Got = append(fr.Got, recStr(r))
		}
		if d.Panic != "" {
			return "panic", "decoder panicked: " + d.Panic
		}
		if d.Nil {
			return "nil-message", "decoder returned no message for a well-formed datagram: " + d.Err
		}
		if fmt.Sprint(d.Hdr) != fmt.Sprint(fr.Hdr[i]) {
			return "header", fmt.Sprintf("header %v, wire says %v", d.Hdr, fr.Hdr[i])
		}
		if k, w := compareRecords(fr.Expect[i], d.Records); k != "" {
			if d.Err != "" {
				w += " (decoder error: " + d.Err + ")"
			}
			return k, w
		}
	}
	return "", ""
}

// installElements writes <dir>/ipfix.elements = shipped file + synthetic elements (enterprise and IANA space) and
// loads it with the real loader. Returns a restore function.
func installElements(run *mon.Run) func() {
	shipped, err := os.ReadFile(filepath.Join(mon.RepoDir(), "scripts", "ipfix.elements"))
	if err != nil {
		run.HarnessError("cannot read scripts/ipfix.elements: " + err.Error())
		run.Finish()
	}
	dir := filepath.Join(os.Getenv("VERIF_RUN"), "elements")
	os.MkdirAll(dir, 0o755)
	content := wire.ElementsFileExtending(shipped, wire.SyntheticElems())
	// the installed file is the site's information model: it may also give a built-in element another type
	// (a vendor's 32-bit octetDeltaCount ...). With the file installed THAT type is in force.
	for id, nt := range retyped {
		re := regexp.MustCompile(fmt.Sprintf(`(?m)^  %d:\n  - (\S+)\n  - \S+$`, id))
		if !re.Match(content) {
			run.HarnessError(fmt.Sprintf("cannot retype element %d in the elements file", id))
		}
		// the first match only: the IANA section comes first, the same id may occur again under an enterprise number
		if loc := re.FindSubmatchIndex(content); loc != nil {
			repl := fmt.Sprintf("  %d:\n  - %s\n  - %s", id, content[loc[2]:loc[3]], nt)
			content = append(append(append([]byte{}, content[:loc[0]]...), repl...), content[loc[1]:]...)
		}
	}
	os.WriteFile(filepath.Join(dir, "ipfix.elements"), content, 0o644)
	orig := ipfix.InfoModel
	if err := ipfix.LoadExtElements(dir); err != nil {
		run.HarnessError("LoadExtElements: " + err.Error())
		run.Finish()
	}
	return func() { ipfix.InfoModel = orig }
}

// retyped: built-in IANA elements to which the installed elements file gives another abstract type.
var retyped = map[uint16]string{1: "unsigned32", 4: "unsigned16", 8: "unsigned32", 56: "octetArray", 82: "octetArray", 152: "unsigned64"}

// withRetyped returns elems with the types the installed file declares.
func withRetyped(elems []wire.Elem) []wire.Elem {
	out := append([]wire.Elem{}, elems...)
	for i := range out {
		if nt, ok := retyped[out[i].ID]; ok && out[i].PEN == 0 {
			out[i].Type = nt
		}
	}
	return out
}

func flowSig(proto, kind string, c *wire.FlowCase) string {
	s := proto + ":" + kind
	if kind == "record-count" || kind == "record-content" {
		if c != nil && c.MinRec <= 4 {
			s += ":min-record-len<=4"
		}
		if c != nil && c.MaxPad >= 5 {
			s += ":padding>=5"
		}
	}
	return s
}

func flowMain(args mon.Args, prop, proto string) {
	run := mon.NewRun(prop, "wirecheck/"+proto, "exploration")
	if args.Replay != "" {
		d, err := mon.LoadReplay(args.Replay)
		if err != nil {
			run.HarnessError(err.Error())
			run.Finish()
		}
		var fr flowReplay
		json.Unmarshal(d.Case, &fr)
		if fr.Elements {
			installElements(run)
		}
		run.Eval(1)
		run.DistinctBulk(2)
		if k, w := runFlowReplay(&fr); k != "" {
			run.Violation(d.Signature, w, fr)
		} else {
			fmt.Println("replay: the case no longer violates")
		}
		run.Finish()
	}
	snap, err := wire.LoadSnapshot(mon.Root())
	if err != nil {
		run.HarnessError(err.Error())
		run.Finish()
	}
	typesSeen := map[string]int{}
	phase := func(elements bool, elems []wire.Elem, n int, stream string) {
		// ---- complete sweep: every element × every legal length × boundary contents
		sweepElems := elems
		var sweepN int64
		for _, e := range sweepElems {
			if proto == "nf9" && e.PEN != 0 {
				continue
			}
			sz := wire.TypeSize(e.Type)
			var lens []uint16
			if sz > 0 {
				for l := 1; l <= sz; l++ {
					lens = append(lens, uint16(l))
				}
			} else {
				lens = []uint16{1, 2, 3, 4, 5, 7, 8, 64, 200}
				if proto == "ipfix" && wire.VarLenOK(e.Type) {
					lens = append(lens, 65535)
				}
			}
			for _, l := range lens {
				g := mon.NewRNG(run.Seed, stream+"sweep", int(e.ID)*70000+int(l)+int(e.PEN))
				t := &wire.Template{ID: uint16(256 + g.Intn(1000)), Fields: []wire.Field{{PEN: e.PEN, ID: e.ID, Len: l, Type: e.Type}}}
				var recs []wire.Record
				for k := 0; k < 5; k++ {
					recs = append(recs, wire.GenRecord(g, t, wire.GenOpts{}))
				}
				if l == 65535 {
					recs = append(recs, wire.Record{{Raw: []byte{}}}, wire.Record{{Raw: g.Bytes(254)}}, wire.Record{{Raw: g.Bytes(255)}},
						wire.Record{{Raw: g.Bytes(3), Long: true}}, wire.Record{{Raw: g.Bytes(1000)}})
				}
				c := &wire.FlowCase{Proto: proto, Addr: wire.GenAddr(g), MinRec: t.MinRecLen()}
				ds := wire.Set{Kind: wire.SetData, Tpl: t, SetID: t.ID, Records: recs}
				var exp [][]wire.ExpField
				for _, r := range recs {
					exp = append(exp, wire.ExpectRecord(t, r))
				}
				tsets := []wire.Set{{Kind: wire.SetTemplate, Templates: []*wire.Template{t}}}
				if proto == "ipfix" {
					m1 := wire.Msg{Seq: 1, Sets: tsets}
					m2 := wire.Msg{Seq: 2, Sets: []wire.Set{ds}}
					b1, b2 := m1.Encode(), m2.Encode()
					c.Dgrams = [][]byte{b1, b2}
					c.Hdr = [][]uint32{{10, uint32(len(b1)), 0, 1, 0}, {10, uint32(len(b2)), 0, 2, 0}}
				} else {
					for (wire.SetLen(&ds))%4 != 0 && ds.Pad < 3 && ds.Pad+1 < t.MinRecLen() {
						ds.Pad++
					}
					if wire.SetLen(&ds)%4 != 0 {
						// add records until aligned
						for k := 0; k < 4 && wire.SetLen(&ds)%4 != 0; k++ {
							r := wire.GenRecord(g, t, wire.GenOpts{})
							ds.Records = append(ds.Records, r)
							exp = append(exp, wire.ExpectRecord(t, r))
						}
					}
					m1 := wire.Nf9Msg{Count: 1, Sets: tsets}
					m2 := wire.Nf9Msg{Count: uint32(len(ds.Records)), Sets: []wire.Set{ds}}
					c.Dgrams = [][]byte{m1.Encode(), m2.Encode()}
					c.Hdr = [][]uint32{{9, 1, 0, 0, 0, 0}, {9, uint32(len(ds.Records)), 0, 0, 0, 0}}
				}
				c.Expect = [][][]wire.ExpField{nil, exp}
				fr := toReplay(c, elements)
				if (int(e.ID)+int(l))%3 == 0 {
					fr.Restart = 1
				}
				run.Eval(1)
				sweepN++
				typesSeen[e.Type]++
				if k, w := runFlowReplay(&fr); k != "" {
					run.Violation(flowSig(proto, k, c)+":sweep:"+e.Type, w, fr)
				}
			}
		}
		run.DistinctBulk(sweepN)
		run.Add("sweep_element_length_pairs", sweepN)

		// ---- seeded random histories
		o := wire.GenOpts{Elems: elems, Varlen: proto == "ipfix", Reduced: true, Options: true, MaxFields: 14}
		mon.ParallelFor(n, func(i int) {
			g := mon.NewRNG(run.Seed, stream, i)
			oo := o
			if g.Chance(1, 10) {
				oo.MaxFields = 40
			}
			c := wire.GenFlowCase(g, proto, oo)
			if g.Chance(1, 5) {
				// a set with a reserved id (to be skipped by its declared length) somewhere in one of the messages:
				// header fields and records of the message stay what they are
				i := g.Intn(len(c.Dgrams))
				lo := 4
				if proto == "nf9" {
					lo = 2
				}
				u := wire.Set{Kind: wire.SetRaw, SetID: uint16(g.Range(lo, 255)), RawBody: g.Bytes(4 * g.Intn(6))}
				at := g.Intn(len(c.SetsPer[i]) + 1)
				sets := append(append(append([]wire.Set{}, c.SetsPer[i][:at]...), u), c.SetsPer[i][at:]...)
				if b, eh := wire.EncodeFlow(proto, c.HdrRaw[i], sets); len(b) < 65000 {
					c.Dgrams[i], c.Hdr[i] = b, eh
					run.Add("histories_with_a_reserved_set", 1)
				}
			}
			fr := toReplay(c, elements)
			if len(c.Dgrams) > 1 && g.Chance(1, 4) {
				fr.Restart = 1 + g.Intn(len(c.Dgrams)-1)
				run.Add("histories_with_a_restart", 1)
			}
			run.Eval(1)
			recs := 0
			for _, e := range c.Expect {
				recs += len(e)
			}
			run.Add("records_compared", int64(recs))
			run.Add("datagrams_decoded", int64(len(c.Dgrams)))
			if recs > 0 {
				run.Distinct(c.Desc)
			}
			if i < 2 {
				run.Sample(map[string]interface{}{"exporter": fr.Addr, "datagrams": fr.Dgrams, "expected_records": fr.Expect})
			}
			if k, w := runFlowReplay(&fr); k != "" {
				run.Violation(flowSig(proto, k, c), w, fr)
			}
		})
	}
	var pen0 []wire.Elem
	pen0 = append(pen0, snap...)
	n := run.Pick(20000, 1000000)
	// phase A: built-in information model, IANA elements only
	phase(false, pen0, n/2, "A")
	// phase B: elements file installed (shipped file + synthetic enterprise elements of every type)
	restore := installElements(run)
	all := append(append([]wire.Elem{}, snap...), wire.SyntheticElems()...)
	if proto == "nf9" {
		// v9 field types carry no enterprise number: the IANA-space synthetic elements (known only once the file
		// is installed) are what tells a decoder that looks at the installed model from one that does not
		all = append([]wire.Elem{}, pen0...)
		for _, e := range wire.SyntheticElems() {
			if e.PEN == 0 {
				all = append(all, e)
			}
		}
	}
	phase(true, withRetyped(all), n-n/2, "B")
	restore()

	// canary: a flipped expectation must be reported
	{
		g := mon.NewRNG(run.Seed, "canary", 0)
		c := wire.GenFlowCase(g, proto, wire.GenOpts{Elems: pen0, MaxFields: 3})
		fr := toReplay(c, false)
		last := len(fr.Expect) - 1
		if len(fr.Expect[last]) > 0 {
			fr.Expect[last][0] += "x"
			if k, _ := runFlowReplay(&fr); k == "" {
				run.HarnessError("canary: comparator accepted a corrupted expectation")
			}
		}
	}
	run.Set("types_swept", typesSeen)
	run.SetRule("model → independent encoder (wire/) → real Decode on a fresh cache → field-by-field comparison (id, enterprise number, Go type and value) with the snapshot's type table. Sweep: every element × every legal fixed length (1..size; 9 lengths and the varlen marker for string/octetArray) × boundary contents, complete. Random: exporter histories with 1-3 templates (plain/options, reduced sizes, varlen 1- and 3-octet prefixes, enterprise elements, IANA-space elements that only the installed file defines and six built-in elements the installed file gives another type, once the elements file is installed), 1-4 data sets, 1-40 records, legal padding, in a fifth of the histories a set with a reserved id at a random position; a third of the sweep pairs and a quarter of the histories save the cache and load it back (Dump + GetCache, a collector restart) between two datagrams; distinct = structural descriptor (field types/lengths/options split/record count/padding), non-trivial = at least one data record compared")
	run.Assume("well-formedness contract of DESIGN.md Appendix A (element id 0, template withdrawal, RFC 6313 list internals not generated)")
	run.Assume("fixtures/iana_ipfix_snapshot.tsv is the reference type table (C20 ties it to both in-repo tables)")
	run.Finish()
}
