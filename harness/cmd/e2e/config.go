package main

import (
	"bytes"
	"encoding/json"
	"fmt"
	"os"
	"path/filepath"
	"strconv"
	"strings"
	"sync"
	"syscall"
	"time"

	"verif/harness/mon"
)

// key describes one observable setting.
type ckey struct {
	Name string // yaml key = flag name; env = VFLOW_<upper, - → _>
	Kind string // int | string | bool
	Role string // port:<proto> | enabled:<proto> | workers:<proto> | stats-port | stats-addr | stats-format | stats-enabled | pid-file | log-file | cache:<proto> | verbose
}

var ckeys = []ckey{
	{"ipfix-port", "int", "port:ipfix"}, {"sflow-port", "int", "port:sflow"}, {"netflow5-port", "int", "port:netflow5"}, {"netflow9-port", "int", "port:netflow9"},
	{"ipfix-enabled", "bool", "enabled:ipfix"}, {"sflow-enabled", "bool", "enabled:sflow"}, {"netflow5-enabled", "bool", "enabled:netflow5"}, {"netflow9-enabled", "bool", "enabled:netflow9"},
	{"ipfix-workers", "int", "workers:ipfix"}, {"sflow-workers", "int", "workers:sflow"}, {"netflow5-workers", "int", "workers:netflow5"}, {"netflow9-workers", "int", "workers:netflow9"},
	{"stats-http-port", "string", "stats-port"}, {"stats-http-addr", "string", "stats-addr"}, {"stats-format", "string", "stats-format"}, {"stats-enabled", "bool", "stats-enabled"},
	{"pid-file", "string", "pid-file"}, {"log-file", "string", "log-file"}, {"verbose", "bool", "verbose"},
	{"ipfix-tpl-cache-file", "string", "cache:ipfix"}, {"netflow9-tpl-cache-file", "string", "cache:netflow9"},
	{"cpu-cap", "string", "cpu-cap"}, {"producer-enabled", "bool", "producer-enabled"}, {"dynamic-workers", "bool", "dynamic-workers"},
	{"ipfix-rpc-enabled", "bool", "rpc-enabled"},
}

// built-in defaults as documented by the program itself (NewOptions); they are also read back
// from a no-source run for the observable ones.
var builtin = map[string]string{
	"ipfix-port": "4739", "sflow-port": "6343", "netflow5-port": "9996", "netflow9-port": "4729",
	"ipfix-enabled": "true", "sflow-enabled": "true", "netflow5-enabled": "true", "netflow9-enabled": "true",
	"ipfix-workers": "200", "sflow-workers": "200", "netflow5-workers": "200", "netflow9-workers": "200",
	"stats-http-port": "8081", "stats-http-addr": "", "stats-format": "prometheus", "stats-enabled": "true",
	"pid-file": "/var/run/vflow.pid", "log-file": "", "verbose": "false",
	"ipfix-tpl-cache-file": "/tmp/vflow.templates", "netflow9-tpl-cache-file": "/tmp/netflowv9.templates",
	"cpu-cap": "100%", "producer-enabled": "true", "dynamic-workers": "true", "ipfix-rpc-enabled": "true",
}

type cfgCase struct {
	Index    int               `json:"index"`
	Seed     int64             `json:"seed"`
	Env      map[string]string `json:"env"`
	File     map[string]string `json:"file"`
	Flags    map[string]string `json:"flags"`
	Expect   map[string]string `json:"expected_effective"`
	Observed map[string]string `json:"observed,omitempty"`
	Stderr   string            `json:"stderr_head,omitempty"`
	Sources  map[string]string `json:"sources_per_key"`
}

// boolSpell: an environment variable is a string; every spelling strconv.ParseBool takes is a boolean there
// (the documented behaviour of the VFLOW_* variables), in the quick tier as well.
func boolSpell(g *mon.RNG, v bool, thorough bool) string {
	if v {
		return []string{"true", "True", "TRUE", "1", "t", "T"}[g.Intn(6)]
	}
	return []string{"false", "False", "FALSE", "0", "f", "F"}[g.Intn(6)]
}

// buildCfgCase assigns every key an independent subset of {env,file,flag} (Latin square over the
// process index) with a distinct value per source.
func buildCfgCase(seed int64, idx int, dir string, thorough bool) *cfgCase {
	g := mon.NewRNG(seed, "cfg", idx)
	c := &cfgCase{Index: idx, Seed: seed, Env: map[string]string{}, File: map[string]string{}, Flags: map[string]string{}, Expect: map[string]string{}, Sources: map[string]string{}}
	// private port range for this process: 20000 + idx*40 .. (probed free by the caller's retry)
	base := 21000 + (idx%400)*60 + int(seed%7)*3
	pn := 0
	nextPort := func() string { pn++; return strconv.Itoa(base + pn) }
	for ki, k := range ckeys {
		sub := (idx + ki) % 8 // bit0 env, bit1 file, bit2 flag
		if thorough && idx >= 16 {
			sub = g.Intn(8)
		}
		vals := map[string]string{}
		switch k.Kind {
		case "int":
			if strings.HasPrefix(k.Role, "port") {
				vals["env"], vals["file"], vals["flag"] = nextPort(), nextPort(), nextPort()
			} else {
				w := []int{3, 5, 7}
				if thorough {
					w = []int{g.Range(1, 9), g.Range(10, 19), g.Range(20, 40)}
				}
				vals["env"], vals["file"], vals["flag"] = strconv.Itoa(w[0]), strconv.Itoa(w[1]), strconv.Itoa(w[2])
			}
		case "bool":
			def := builtin[k.Name] == "true"
			// each source disagrees with the one it overrides
			e := !def
			f := !e
			fl := !f
			if sub&1 == 0 {
				f = !def
				fl = !f
			}
			if sub&2 == 0 {
				fl = !e
				if sub&1 == 0 {
					fl = !def
				}
			}
			vals["env"], vals["file"], vals["flag"] = boolSpell(g, e, thorough), strconv.FormatBool(f), strconv.FormatBool(fl)
		case "string":
			switch k.Role {
			case "stats-port":
				vals["env"], vals["file"], vals["flag"] = nextPort(), nextPort(), nextPort()
			case "stats-addr":
				vals["env"], vals["file"], vals["flag"] = "127.0.0.2", "127.0.0.3", "127.0.0.4"
			case "cpu-cap":
				vals["env"], vals["file"], vals["flag"] = "2", "3", "25%"
			case "stats-format":
				vals["env"], vals["file"], vals["flag"] = "rest", "restful", "rest"
				if g.Bool() {
					vals["file"] = "prometheus"
					vals["env"] = "rest"
					vals["flag"] = "restful"
				}
			default:
				tag := strings.ReplaceAll(k.Name, "-", "_")
				vals["env"] = filepath.Join(dir, tag+".env")
				vals["file"] = filepath.Join(dir, tag+".file")
				vals["flag"] = filepath.Join(dir, tag+".flag")
			}
		}
		// second half of the Latin square: where two or more sources meet and the winner is the file or the
		// command line, the winner's value is the built-in default itself (the empty string for the stats
		// address and the log file) - a value that must still override what the lower source said
		if idx >= 8 && idx < 16 && (sub == 3 || sub >= 5) {
			top := "file"
			if sub&4 != 0 {
				top = "flag"
			}
			switch {
			case strings.HasPrefix(k.Role, "workers:"), k.Role == "stats-addr", k.Role == "log-file", k.Role == "cpu-cap":
				vals[top] = builtin[k.Name]
			}
		}
		// one process (the seventh; one only, in either tier - the port number is shared by everything on the machine): the winning source of one UDP port key says 65535, the largest port there is - a value
		// range is part of "a setting is applied" (round 14, C17-m). One such process at a time: the port is shared.
		if strings.HasPrefix(k.Role, "port:") && idx == 6 && ki == int(seed%2) && sub != 0 {
			top := "env"
			if sub&2 != 0 {
				top = "file"
			}
			if sub&4 != 0 {
				top = "flag"
			}
			vals[top] = "65535"
		}
		eff := builtin[k.Name]
		src := "default"
		if sub&1 != 0 {
			c.Env["VFLOW_"+strings.ToUpper(strings.ReplaceAll(k.Name, "-", "_"))] = vals["env"]
			eff, src = vals["env"], "env"
		}
		if sub&2 != 0 {
			c.File[k.Name] = vals["file"]
			eff, src = vals["file"], "file"
		}
		if sub&4 != 0 {
			c.Flags[k.Name] = vals["flag"]
			eff, src = vals["flag"], "flag"
		}
		if k.Kind == "bool" {
			b, _ := strconv.ParseBool(eff)
			eff = strconv.FormatBool(b)
		}
		c.Expect[k.Name] = eff
		var parts []string
		for _, s := range []struct {
			bit int
			n   string
		}{{1, "env"}, {2, "file"}, {4, "flag"}} {
			if sub&s.bit != 0 {
				parts = append(parts, s.n+"="+vals[s.n])
			}
		}
		c.Sources[k.Name] = strings.Join(parts, " ") + " → " + src
	}
	return c
}

var defaultsLane sync.Mutex

// runCfgCase starts the collector with the case's sources and reads the effective settings back.
func runCfgCase(c *cfgCase, bin, dir string) (kind, what string, inconcl string) {
	sink, err := newSinkT()
	if err != nil {
		return "", "", "sink: " + err.Error()
	}
	defer sink.close()
	conf := map[string]string{"mq-name": "rawSocket", "mq-config-file": "mq.conf"}
	for k, v := range c.File {
		conf[k] = v
		// a string-valued key may be written as a quoted YAML scalar (double or single quotes): same value
		for ki, ck := range ckeys {
			if ck.Name == k && ck.Kind == "string" && v != "" {
				switch (c.Index + ki) % 3 {
				case 1:
					conf[k] = `"` + v + `"`
				case 2:
					conf[k] = "'" + v + "'"
				}
			}
		}
	}
	writeConf(dir, conf, sink.port)
	// a site template: the file starts with kilobytes of commentary and the settings come after it
	if pad := []int{0, 6 << 10, 0, 70 << 10}[c.Index%4]; pad > 0 {
		fp := filepath.Join(dir, "vflow.conf")
		body, _ := os.ReadFile(fp)
		var sb strings.Builder
		for sb.Len() < pad {
			sb.WriteString("# vFlow site configuration template - every key is documented in docs/config.md; uncomment and edit.\n# ipfix-port: 4739\n")
		}
		os.WriteFile(fp, append([]byte(sb.String()), body...), 0o644)
	}
	// a configuration file reached through a symbolic link (a mounted ConfigMap, /etc/alternatives, stow)
	if c.Index%4 == 2 {
		fp := filepath.Join(dir, "vflow.conf")
		os.MkdirAll(filepath.Join(dir, "..data"), 0o755)
		if err := os.Rename(fp, filepath.Join(dir, "..data", "vflow.conf")); err == nil {
			os.Symlink(filepath.Join("..data", "vflow.conf"), fp)
		}
	}
	var env, flags []string
	for k, v := range c.Env {
		env = append(env, k+"="+v)
	}
	for k, v := range c.Flags {
		if v == "true" || v == "false" {
			flags = append(flags, "-"+k+"="+v)
		} else {
			flags = append(flags, "-"+k, v)
		}
	}
	// where "-config <file>" stands among the other options must not matter: first, last or in the middle
	{
		cf := []string{"-config", filepath.Join(dir, "vflow.conf")}
		switch c.Index % 3 {
		case 0:
			flags = append(cf, flags...)
		case 1:
			flags = append(flags, cf...)
		default:
			// flags are "-k v" pairs or single "-k=v" words: split at a word that starts an option
			at := 0
			for i := len(flags) / 2; i < len(flags); i++ {
				if strings.HasPrefix(flags[i], "-") && (i == 0 || !(strings.HasPrefix(flags[i-1], "-") && !strings.Contains(flags[i-1], "="))) {
					at = i
					break
				}
			}
			flags = append(append(append([]string{}, flags[:at]...), cf...), flags[at:]...)
		}
	}
	usesDefault := false
	for _, k := range ckeys {
		if strings.Contains(c.Sources[k.Name], "→ default") && (strings.HasPrefix(k.Role, "port") || k.Role == "stats-port" || k.Role == "pid-file" || strings.HasPrefix(k.Role, "cache")) {
			usesDefault = true
		}
	}
	if usesDefault {
		defaultsLane.Lock()
		defer defaultsLane.Unlock()
	}
	createdByUs := map[string]bool{}
	for _, k := range []string{"pid-file", "ipfix-tpl-cache-file", "netflow9-tpl-cache-file"} {
		if _, err := os.Stat(c.Expect[k]); os.IsNotExist(err) {
			createdByUs[c.Expect[k]] = true
		}
	}
	defer func() {
		for f := range createdByUs {
			if strings.HasPrefix(f, "/tmp/") || strings.HasPrefix(f, "/var/run/") {
				os.Remove(f)
			}
		}
	}()
	col, err := startCollector(bin, dir, env, flags, nil)
	if err != nil {
		return "", "", "start: " + err.Error()
	}
	defer col.kill()
	E := c.Expect
	obs := map[string]string{}
	c.Observed = obs
	statsOn := E["stats-enabled"] == "true"
	statsAddr := E["stats-http-addr"]
	if statsAddr == "" {
		statsAddr = "127.0.0.1"
	}
	statsPort, _ := strconv.Atoi(E["stats-http-port"])
	wantUDP := map[string]int{}
	for _, p := range []string{"ipfix", "sflow", "netflow5", "netflow9"} {
		if E[p+"-enabled"] == "true" {
			port, _ := strconv.Atoi(E[p+"-port"])
			wantUDP[p] = port
		}
	}
	// readiness: every expected socket is there (or the process died / 10 s passed)
	deadline := time.Now().Add(10 * time.Second)
	var udp map[int]bool
	var tcp map[int]string
	for {
		udp, tcp = sockets(col.pid())
		ok := true
		for _, port := range wantUDP {
			if !udp[port] {
				ok = false
			}
		}
		if statsOn {
			if _, l := tcp[statsPort]; !l {
				ok = false
			}
		}
		if ok || !col.alive() || time.Now().After(deadline) {
			break
		}
		time.Sleep(10 * time.Millisecond)
	}
	time.Sleep(150 * time.Millisecond) // let late sockets appear so that an unexpected extra one is seen as well
	udp, tcp = sockets(col.pid())
	if !col.alive() {
		full := col.stderr()
		c.Stderr = clip(full, 1500)
		if strings.Contains(full, "address already in use") || strings.Contains(full, "already is running") {
			return "", "", "a port or pid file of this case was taken by something else: " + clip(c.Stderr, 300)
		}
		return "died-at-start", "the collector exited during start-up: " + clip(c.Stderr, 600), ""
	}
	var problems []string
	addp := func(key, f string, a ...interface{}) {
		problems = append(problems, key+": "+fmt.Sprintf(f, a...)+" ["+c.Sources[key]+"]")
	}
	// ports and enable switches
	allPorts := map[int]string{}
	for _, k := range ckeys {
		if strings.HasPrefix(k.Role, "port:") {
			for _, src := range []string{c.Env["VFLOW_"+strings.ToUpper(strings.ReplaceAll(k.Name, "-", "_"))], c.File[k.Name], c.Flags[k.Name], builtin[k.Name]} {
				if p, err := strconv.Atoi(src); err == nil {
					allPorts[p] = k.Name
				}
			}
		}
	}
	for _, p := range []string{"ipfix", "sflow", "netflow5", "netflow9"} {
		port, _ := strconv.Atoi(E[p+"-port"])
		bound := udp[port]
		obs[p+" listening on expected port"] = strconv.FormatBool(bound)
		if E[p+"-enabled"] == "true" && !bound {
			var where []string
			for cand, name := range allPorts {
				if name == p+"-port" && udp[cand] {
					where = append(where, strconv.Itoa(cand))
				}
			}
			addp(p+"-port", "no UDP socket on %d (candidate ports of this key that are bound: %v; enabled: %s)", port, where, c.Sources[p+"-enabled"])
		}
		if E[p+"-enabled"] == "false" {
			for cand, name := range allPorts {
				if name == p+"-port" && udp[cand] {
					addp(p+"-enabled", "protocol is disabled but UDP port %d is bound", cand)
				}
			}
		}
	}
	// stats endpoint
	if statsOn {
		if a, l := tcp[statsPort]; !l {
			addp("stats-http-port", "no TCP listener on %d (listening: %v)", statsPort, tcp)
		} else {
			obs["stats listener"] = fmt.Sprintf("%s:%d", a, statsPort)
			// bind address: 00000000 / 0100007F ...
			if E["stats-http-addr"] == "" {
				if strings.Trim(a, "0") != "" {
					addp("stats-http-addr", "stats listener bound to %s, expected the wildcard address", a)
				}
			} else {
				ipb := strings.Split(E["stats-http-addr"], ".")
				want := ""
				for i := 3; i >= 0; i-- {
					v, _ := strconv.Atoi(ipb[i])
					want += fmt.Sprintf("%02X", v)
				}
				if !strings.HasSuffix(a, want) {
					addp("stats-http-addr", "stats listener bound to %s, expected %s (%s)", a, E["stats-http-addr"], want)
				}
			}
			flow, ferr := getFlow(statsAddr, statsPort)
			met, merr := getMetrics(statsAddr, statsPort)
			isProm := E["stats-format"] == "prometheus"
			obs["/flow"], obs["/metrics"] = fmt.Sprint(ferr == nil), fmt.Sprint(merr == nil)
			if isProm && (merr != nil || ferr == nil) {
				addp("stats-format", "format prometheus expected: /metrics error=%v, /flow error=%v", merr, ferr)
			}
			if !isProm && ferr != nil {
				addp("stats-format", "format %q expected: /flow does not answer (%v)", E["stats-format"], ferr)
			}
			for _, p := range []struct{ proto, js, prom string }{{"ipfix", "IPFIX", "vflow_ipfix_workers"}, {"sflow", "SFlow", "vflow_sflow_workers"}, {"netflow5", "NetflowV5", "vflow_netflowv5_workers"}, {"netflow9", "NetflowV9", "vflow_netflowv9_workers"}} {
				want, _ := strconv.Atoi(E[p.proto+"-workers"])
				if E[p.proto+"-enabled"] != "true" {
					want = 0
				}
				got := -1
				if flow != nil {
					if m, ok := flow[p.js]; ok {
						got = int(m["Workers"])
					}
				} else if met != nil {
					if v, ok := met[p.prom]; ok {
						got = int(v)
					}
				}
				obs[p.proto+" workers"] = strconv.Itoa(got)
				if got >= 0 && got != want {
					addp(p.proto+"-workers", "collector reports %d workers, expected %d", got, want)
				}
			}
		}
	} else {
		for cand := range tcp {
			if cand == statsPort {
				addp("stats-enabled", "stats are disabled but TCP port %d is listening", cand)
			}
		}
	}
	// pid file
	if b, err := os.ReadFile(E["pid-file"]); err != nil || strings.TrimSpace(string(b)) != strconv.Itoa(col.pid()) {
		addp("pid-file", "expected pid file %s with pid %d: %v %q", E["pid-file"], col.pid(), err, string(b))
	} else {
		obs["pid-file"] = E["pid-file"]
	}
	// log file and verbosity
	logText := col.stderr()
	if E["log-file"] != "" {
		b, err := os.ReadFile(E["log-file"])
		if err != nil || len(b) == 0 {
			addp("log-file", "expected log output in %s: %v (%d octets)", E["log-file"], err, len(b))
		}
		logText += string(b)
	}
	for _, cand := range []string{c.Env["VFLOW_LOG_FILE"], c.File["log-file"], c.Flags["log-file"]} {
		if cand != "" && cand != E["log-file"] {
			if _, err := os.Stat(cand); err == nil {
				addp("log-file", "the log went to %s, a value of an overridden source (expected %q)", cand, E["log-file"])
			}
		}
	}
	sawVerbose := strings.Contains(logText, "the full logging enabled")
	obs["verbose"] = strconv.FormatBool(sawVerbose)
	if sawVerbose != (E["verbose"] == "true") {
		addp("verbose", "verbose logging announced: %v, expected %s", sawVerbose, E["verbose"])
	}
	// cpu-cap through GOMAXPROCS as reported by /sys (rest format only)
	if statsOn && E["stats-format"] != "prometheus" {
		if r, err := httpc.Get(fmt.Sprintf("http://%s:%d/sys", statsAddr, statsPort)); err == nil {
			var sys struct{ MaxProcs, NumLogicalCPU int }
			json.NewDecoder(r.Body).Decode(&sys)
			r.Body.Close()
			want := sys.NumLogicalCPU
			cc := E["cpu-cap"]
			if strings.HasSuffix(cc, "%") {
				pct, _ := strconv.Atoi(strings.TrimSuffix(cc, "%"))
				want = int(float32(sys.NumLogicalCPU) * (float32(pct) / 100))
			} else if n, err := strconv.Atoi(cc); err == nil {
				want = n
			}
			if want > sys.NumLogicalCPU {
				want = sys.NumLogicalCPU
			}
			obs["MaxProcs"] = strconv.Itoa(sys.MaxProcs)
			if sys.NumLogicalCPU > 0 && sys.MaxProcs != want {
				addp("cpu-cap", "GOMAXPROCS is %d, cpu-cap %q of %d CPUs means %d", sys.MaxProcs, cc, sys.NumLogicalCPU, want)
			}
		}
	}
	// producer-enabled: connections to the sink (one per enabled protocol)
	{
		enabledProtos := 0
		for _, p := range []string{"ipfix", "sflow", "netflow5", "netflow9"} {
			if E[p+"-enabled"] == "true" {
				enabledProtos++
			}
		}
		for w := 0; w < 100; w++ {
			sink.mu.Lock()
			n := sink.conns
			sink.mu.Unlock()
			if E["producer-enabled"] != "true" || n >= enabledProtos {
				break
			}
			time.Sleep(10 * time.Millisecond)
		}
		sink.mu.Lock()
		n := sink.conns
		sink.mu.Unlock()
		obs["producer connections"] = strconv.Itoa(n)
		if E["producer-enabled"] == "true" && n != enabledProtos {
			addp("producer-enabled", "%d producer connections at the sink, %d protocols enabled", n, enabledProtos)
		}
		if E["producer-enabled"] != "true" && n != 0 {
			addp("producer-enabled", "producer disabled but %d connections reached the sink", n)
		}
	}
	// dynamic-workers and ipfix-rpc-enabled through what the collector says about itself
	{
		lt := col.stderr()
		if E["log-file"] != "" {
			b, _ := os.ReadFile(E["log-file"])
			lt += string(b)
		}
		anyProto := false
		for _, p := range []string{"ipfix", "sflow", "netflow5", "netflow9"} {
			if E[p+"-enabled"] == "true" {
				anyProto = true
			}
		}
		if anyProto {
			saysDisabled := strings.Contains(lt, "dynamic worker disabled")
			obs["dynamic workers disabled (log)"] = strconv.FormatBool(saysDisabled)
			if saysDisabled == (E["dynamic-workers"] == "true") {
				addp("dynamic-workers", "log says dynamic workers disabled: %v, expected setting %s", saysDisabled, E["dynamic-workers"])
			}
		}
		if E["ipfix-enabled"] == "true" {
			// when enabled the discovery is attempted (and reports that it cannot run here); when disabled nothing is logged
			for w := 0; w < 100 && E["ipfix-rpc-enabled"] == "true" && !strings.Contains(lt, "RPC has been disabled") && !strings.Contains(lt, "ipfix RPC enabled"); w++ {
				time.Sleep(10 * time.Millisecond)
				lt = col.stderr()
				if E["log-file"] != "" {
					b, _ := os.ReadFile(E["log-file"])
					lt += string(b)
				}
			}
			tried := strings.Contains(lt, "RPC has been disabled") || strings.Contains(lt, "ipfix RPC enabled")
			obs["rpc attempted (log)"] = strconv.FormatBool(tried)
			if tried != (E["ipfix-rpc-enabled"] == "true") {
				addp("ipfix-rpc-enabled", "peer RPC attempted: %v, expected setting %s", tried, E["ipfix-rpc-enabled"])
			}
		}
	}
	// shutdown: cache files written where configured
	col.cmd.Process.Signal(syscall.SIGTERM)
	if _, ok := col.wait(15 * time.Second); !ok {
		return "", "", "collector did not exit within 15 s after SIGTERM"
	}
	for _, p := range []struct{ proto, key string }{{"ipfix", "ipfix-tpl-cache-file"}, {"netflow9", "netflow9-tpl-cache-file"}} {
		if E[p.proto+"-enabled"] != "true" {
			continue
		}
		st, err := os.Stat(E[p.key])
		if err != nil || time.Since(st.ModTime()) > 60*time.Second {
			addp(p.key, "cache file %s not written at shutdown (%v)", E[p.key], err)
		} else {
			obs[p.key] = E[p.key]
		}
	}
	c.Stderr = clip(col.stderr(), 800)
	if len(problems) > 0 {
		key := strings.SplitN(problems[0], ":", 2)[0]
		return "effective-setting:" + key, strings.Join(problems, " ; "), ""
	}
	return "", "", ""
}

func configMain(args mon.Args) {
	run := mon.NewRun("C17", "e2e/config", "exploration")
	bin, err := buildBinary(false)
	if err != nil {
		run.HarnessError(err.Error())
		run.Finish()
	}
	dir := os.Getenv("VERIF_RUN")
	n := run.Pick(16, 400)
	from := 0
	if args.Replay != "" {
		d, err := mon.LoadReplay(args.Replay)
		if err != nil {
			run.HarnessError(err.Error())
			run.Finish()
		}
		if strings.Contains(d.Signature, "udp-size") {
			udpSizePhase(run, bin, dir)
			run.Finish()
		}
		if bytes.Contains(d.Case, []byte(`"host_limit"`)) {
			cpuLimitedDefaults(run, bin, dir)
			run.Finish()
		}
		var cc cfgCase
		json.Unmarshal(d.Case, &cc)
		run.Seed, from, n = cc.Seed, cc.Index, 1
	}
	cells := map[string]bool{}
	var mu sync.Mutex
	sem := make(chan struct{}, 8)
	var wg sync.WaitGroup
	for i := from; i < from+n; i++ {
		wg.Add(1)
		sem <- struct{}{}
		go func(i int) {
			defer wg.Done()
			defer func() { <-sem }()
			cdir := filepath.Join(dir, fmt.Sprintf("cfg%d", i))
			os.MkdirAll(cdir, 0o755)
			c := buildCfgCase(run.Seed, i, cdir, run.Thorough())
			var k, w, inc string
			for try := 0; try < 3; try++ {
				k, w, inc = runCfgCase(c, bin, cdir)
				if inc == "" {
					break
				}
				time.Sleep(200 * time.Millisecond)
			}
			run.Eval(1)
			mu.Lock()
			for _, key := range ckeys {
				src := c.Sources[key.Name]
				cells[key.Name+"|"+src[strings.LastIndex(src, "→"):]+"|"+fmt.Sprint(strings.Count(src, "="))] = true
			}
			mu.Unlock()
			run.Distinct(fmt.Sprint(c.Sources))
			if inc != "" {
				run.Inconclusive(fmt.Sprintf("case %d: %s", i, inc))
				return
			}
			if k != "" {
				run.Violation("config:"+k, fmt.Sprintf("case %d: %s", i, w), c)
			}
			if i == from {
				run.Sample(map[string]interface{}{"env": c.Env, "file": c.File, "flags": c.Flags, "expected_effective": c.Expect, "observed": c.Observed})
			}
		}(i)
	}
	wg.Wait()
	if args.Replay == "" {
		udpSizePhase(run, bin, dir)
		cpuLimitedDefaults(run, bin, dir)
	}
	// canary: a wrong expectation must be noticed
	if args.Replay == "" {
		cdir := filepath.Join(dir, "cfg-canary")
		os.MkdirAll(cdir, 0o755)
		c := buildCfgCase(run.Seed, 5, cdir, false)
		p, _ := strconv.Atoi(c.Expect["sflow-port"])
		c.Expect["sflow-port"] = strconv.Itoa(p + 7)
		c.Expect["sflow-enabled"] = "true"
		c.Flags["sflow-enabled"] = "true"
		if k, _, inc := runCfgCase(c, bin, cdir); k == "" && inc == "" {
			run.HarnessError("canary: the read-back accepted a wrong expected port")
		}
	}
	run.Set("key_x_source_cells_covered", len(cells))
	run.Set("keys_observed", len(ckeys))
	run.SetRule("every observed key (4 UDP ports, 4 enable switches, 4 worker counts, stats port/address/format/enabled, pid file, log file, verbose, 2 cache files, cpu-cap, producer-enabled, dynamic-workers, ipfix-rpc-enabled: integer, string and boolean kinds) gets an independent subset of {VFLOW_* environment, configuration file, command line} by a Latin square over 16 collector processes (every key meets all 8 subsets), with a distinct value per source (a boolean source always disagrees with the one it overrides; in half of the processes a winning file/flag value of the worker counts, stats address, log file and cpu-cap is the built-in default itself, i.e. 200, the empty string, 100%); the -config option stands first, last or in the middle of the command line; string-valued keys are written plain, double-quoted or single-quoted in the file; in half of the processes the file begins with 6 or 70 KiB of comment lines, in a quarter it is reached through a symbolic link; boolean environment values use every spelling strconv.ParseBool takes (true/True/TRUE/1/t/T ...); thorough adds random subsets/values. The real binary is started and the effective value is read back behaviourally: UDP/TCP sockets of the process from /proc, Workers from /flow or /metrics, which endpoint answers, files that appear (pid, log, cache files after SIGTERM), the verbose banner. Expected = flag ?? file ?? env ?? built-in default. The four <protocol>-udp-size keys are covered by eight further processes (udpSizePhase): each key meets all 8 source subsets with its own value per source and key (400/700/1000 + 60 x key index; default 1500), ~50 datagrams of up to 1464 octets per protocol are sent and every line at the sink must equal the stand-alone decode of the datagram cut to the expected effective size (a case whose probes cannot tell the effective size from another candidate is inconclusive). Finally the collector is started with no source naming the worker counts under a CPU limit (taskset -c 0, GOMAXPROCS=2; thorough also two CPUs and GOMAXPROCS=1): the built-in default of 200 workers per protocol must be in force. distinct = source assignment")
	run.Assume("keys without an external observable (mirror settings, topics with the rawSocket backend, mq-name) and the list-valued sflow-type-filter are not covered")
	run.Finish()
}
