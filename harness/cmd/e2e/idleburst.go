package main

import (
	"bytes"
	"fmt"
	"net"
	"os"
	"path/filepath"
	"strconv"
	"sync"
	"syscall"
	"time"

	"verif/harness/mon"
	"verif/harness/pipe"
	"verif/harness/wire"
)

// idleBurstMain (end-to-end tier of C08, and of C12 with all four protocols): exporters are quiet for a few
// seconds - the receive loops' one-second read deadlines expire several times - and then send a back-to-back burst
// of distinct datagrams; again, three times over. Every message at the sink must be the field-for-field decode of
// the datagram whose identity it carries (header sequence number and exporter), each at most once, and - when the
// kernel dropped nothing - all of them. The quiet period is the ingredient no other tier has: everything else
// sends continuously from the moment the sockets exist.
func idleBurstMain(args mon.Args) {
	run := mon.NewRun(args.Prop, "e2e/idleburst", "exploration")
	var err error
	snapE, err = wire.LoadSnapshot(mon.Root())
	if err != nil {
		run.HarnessError(err.Error())
		run.Finish()
	}
	bin, err := buildBinary(false)
	if err != nil {
		run.HarnessError(err.Error())
		run.Finish()
	}
	dir := os.Getenv("VERIF_RUN")
	protos := []string{"nf5"}
	if args.Prop != "C08" {
		protos = []string{"ipfix", "nf9", "nf5", "sflow"}
	}
	nProc := run.Pick(2, 4)
	var totalSent, totalLines, bursts int64
	var cmu sync.Mutex
	var wg sync.WaitGroup
	for pi := 0; pi < nProc; pi++ {
		wg.Add(1)
		go func(pi int) {
			defer wg.Done()
			g := mon.NewRNG(run.Seed, "e2e-idleburst", pi)
			pdir := filepath.Join(dir, fmt.Sprintf("idle%d", pi))
			os.MkdirAll(pdir, 0o755)
			sink, err := newSinkT()
			if err != nil {
				run.HarnessError(err.Error())
				return
			}
			workers := []int{2, 1, 8, 3}[pi%4]
			ports := map[string]int{}
			statsPort := reservedPort()
			conf := map[string]string{
				"mq-name": "rawSocket", "mq-config-file": "mq.conf", "ipfix-rpc-enabled": "false", "dynamic-workers": "false",
				"stats-format": "rest", "stats-http-port": strconv.Itoa(statsPort), "stats-http-addr": "127.0.0.1",
				"pid-file": filepath.Join(pdir, "vflow.pid"), "ipfix-tpl-cache-file": filepath.Join(pdir, "i.tpl"), "netflow9-tpl-cache-file": filepath.Join(pdir, "n.tpl"),
			}
			for _, p := range []string{"ipfix", "nf9", "nf5", "sflow"} {
				conf[protoNames[p].conf+"-enabled"] = "false"
			}
			for _, p := range protos {
				ports[p] = reservedPort()
				conf[protoNames[p].conf+"-enabled"] = "true"
				conf[protoNames[p].conf+"-port"] = strconv.Itoa(ports[p])
				conf[protoNames[p].conf+"-workers"] = strconv.Itoa(workers)
			}
			if pi%2 == 1 {
				// the receive buffer exactly as long as the full-size datagrams of the bursts (30 flows = 1464 octets)
				conf["netflow5-udp-size"] = "1464"
			}
			writeConf(pdir, conf, sink.port)
			quiet := []time.Duration{1300 * time.Millisecond, 2200 * time.Millisecond, 3300 * time.Millisecond, 1100 * time.Millisecond}[pi%4]
			desc := fmt.Sprintf("idle %v then burst, three times; %v workers=%d netflow5-udp-size=%s", quiet, protos, workers, map[bool]string{true: "1464 (= the datagrams)", false: "1500"}[pi%2 == 1])
			col, err := startCollector(bin, pdir, nil, nil, nil)
			if err != nil {
				run.HarnessError(err.Error())
				sink.close()
				return
			}
			wit := func(detail string) blastWitness {
				return blastWitness{Seed: run.Seed, Index: pi, Desc: desc, Detail: detail, Stderr: clip(col.stderr(), 2000)}
			}
			ready := false
			for d := time.Now().Add(15 * time.Second); time.Now().Before(d) && col.alive(); time.Sleep(5 * time.Millisecond) {
				udp, tcp := sockets(col.pid())
				ok := tcp[statsPort] != ""
				for _, p := range ports {
					ok = ok && udp[p]
				}
				if ok {
					ready = true
					break
				}
			}
			if !ready {
				run.Inconclusive(desc + ": collector not ready: " + clip(col.stderr(), 300))
				col.kill()
				sink.close()
				return
			}
			snd := newSender()
			exps := [][]byte{mapped(net.IPv4(127, 92, byte(pi), 1)), mapped(net.IPv4(127, 92, byte(pi), 2))}
			lib := pipe.NewLibCache()
			trs := map[string]*pipe.Traffic{}
			for _, p := range protos {
				tr := pipe.NewTraffic(g, p, len(exps), 1464, snapE, true, false, exps...)
				trs[p] = tr
				for _, e := range exps {
					if t := tr.TplDgrams[mon.Hex(e)]; t != nil {
						snd.send(net.IP(e[12:16]), ports[p], t)
						pipe.Standalone(p, e, t, lib, nil)
					}
				}
			}
			type sentD struct {
				proto string
				round int
				d, e  []byte
			}
			var all []sentD
			id := 800000 + pi*10000
			for round := 0; round < 3; round++ {
				time.Sleep(quiet)
				// the burst is generated beforehand and sent without pause: 24 datagrams per protocol, small enough for the
				// default socket buffer, too many for the workers to have finished when the last one arrives
				var pre []sentD
				for k := 0; k < 24; k++ {
					for _, p := range protos {
						id++
						e := exps[k%2]
						pre = append(pre, sentD{p, round, trs[p].Data(e, id, true), e})
					}
				}
				for _, s := range pre {
					snd.send(net.IP(s.e[12:16]), ports[s.proto], s.d)
				}
				all = append(all, pre...)
				cmu.Lock()
				bursts++
				cmu.Unlock()
			}
			for last, same := -1, 0; same < 40; {
				n := sink.count()
				if n == last {
					same++
				} else {
					last, same = n, 0
				}
				time.Sleep(10 * time.Millisecond)
			}
			lines := sink.snapshot()
			cmu.Lock()
			totalSent += int64(len(all))
			totalLines += int64(len(lines))
			cmu.Unlock()
			run.Eval(1)
			run.Distinct(desc)
			if ct := crashText(col.stderr()); ct != "" || !col.alive() {
				run.Violation("idleburst:collector-died", desc+": the collector died: "+clip(ct, 400), wit("died"))
				col.kill()
				sink.close()
				snd.close()
				return
			}
			expect := make([][]byte, len(all))
			byKey := map[string]int{}
			ambiguous := map[string]bool{}
			want := 0
			for i, s := range all {
				expect[i], _, _ = pipe.Standalone(s.proto, s.e, s.d, lib, nil)
				if expect[i] == nil {
					continue
				}
				want++
				k := s.proto + "|" + pipe.PayloadKey(s.proto, expect[i])
				if _, dup := byKey[k]; dup {
					ambiguous[k] = true
				}
				byKey[k] = i
			}
			seen := map[string]int{}
			reported := map[string]bool{}
			for _, l := range lines {
				b := []byte(l)
				proto := "?"
				switch {
				case bytes.Contains(b, []byte(`"Header":{"Version":10,`)):
					proto = "ipfix"
				case bytes.Contains(b, []byte(`"Header":{"Version":9,`)):
					proto = "nf9"
				case bytes.Contains(b, []byte(`"Header":{"Version":5,`)):
					proto = "nf5"
				case bytes.HasPrefix(b, []byte(`{"Version":5,`)):
					proto = "sflow"
					b = pipe.MaskColTime(b)
				}
				k := proto + "|" + pipe.PayloadKey(proto, b)
				i, ok := byKey[k]
				if !ok {
					if !reported["foreign"] {
						reported["foreign"] = true
						w := wit("a line at the sink carries an identity that no sent datagram has")
						w.Got = clip(l, 900)
						run.Violation("idleburst:foreign-payload", fmt.Sprintf("%s: a line of %d octets at the sink matches no datagram that was sent", desc, len(l)), w)
					}
					continue
				}
				if ambiguous[k] {
					continue
				}
				seen[k]++
				if !bytes.Equal(b, expect[i]) && !reported[proto+"differs"] {
					reported[proto+"differs"] = true
					w := wit("published message differs from the decode of the datagram whose identity it carries")
					w.Got, w.Want, w.Dgram = clip(string(b), 900), clip(string(expect[i]), 900), mon.Hex(all[i].d)
					run.Violation("idleburst:"+proto+":fields-differ", fmt.Sprintf("%s: burst %d: the %s message published for datagram %s is not the field-for-field decode of that datagram", desc, all[i].round+1, proto, k), w)
				}
				if seen[k] == 2 && !reported[proto+"twice"] {
					reported[proto+"twice"] = true
					run.Violation("idleburst:"+proto+":published-twice", fmt.Sprintf("%s: burst %d: datagram %s was published twice", desc, all[i].round+1, k), wit("duplicate"))
				}
			}
			portSet := map[int]bool{}
			for _, p := range ports {
				portSet[p] = true
			}
			if kernelDrops(portSet) == 0 {
				for k, i := range byKey {
					if seen[k] == 0 && !ambiguous[k] && !reported["missing"] {
						reported["missing"] = true
						w := wit("nothing published for a complete datagram")
						w.Want, w.Dgram = clip(string(expect[i]), 600), mon.Hex(all[i].d)
						run.Violation("idleburst:"+all[i].proto+":not-published", fmt.Sprintf("%s: burst %d: nothing was published for datagram %s (%d of %d arrived; no kernel drops)", desc, all[i].round+1, k, len(seen), want), w)
					}
				}
			} else {
				run.Inconclusive(desc + ": the kernel dropped datagrams of a burst; completeness not judged")
			}
			if pi == 0 && len(lines) > 0 {
				run.Sample(map[string]interface{}{"scenario": desc, "sent": len(all), "lines_at_sink": len(lines), "first_line": clip(lines[0], 300)})
			}
			col.cmd.Process.Signal(syscall.SIGTERM)
			col.wait(10 * time.Second)
			col.kill()
			sink.close()
			snd.close()
		}(pi)
	}
	wg.Wait()
	run.Set("bursts_after_a_quiet_period", bursts)
	run.Set("datagrams_sent", totalSent)
	run.Set("lines_at_the_sink", totalLines)
	run.SetRule("end-to-end tier: the real binary; exporters stay quiet for 1.1-3.3 s (the receive loops' one-second read deadlines expire), then send 24 distinct full-size datagrams per protocol back to back, three times; every line at the sink must equal the stand-alone decode of the datagram whose identity (exporter, sequence number) it carries, at most once, and every datagram must be published when the kernel dropped none. C08: NetFlow v5 only (30-flow datagrams of 1464 octets; in every second process netflow5-udp-size is 1464 as well, so that each datagram fills the receive buffer exactly); C12: all four protocols. distinct = quiet period x worker count")
	run.Finish()
}
