package main

import (
	"bytes"
	"encoding/json"
	"fmt"
	"net"
	"os"
	"path/filepath"
	"regexp"
	"sort"
	"strconv"
	"strings"
	"sync"
	"sync/atomic"
	"syscall"
	"time"

	"github.com/EdgeCast/vflow/ipfix"
	netflow9 "github.com/EdgeCast/vflow/netflow/v9"

	"verif/harness/mon"
	"verif/harness/wire"
)

// exporter is one emulated exporter (source address 127.a.b.c) with one template per protocol.
type exporterT struct {
	IP   net.IP // 4-byte
	Tpl  map[string]*wire.Template
	TplD map[string][]byte
}

func mapped(ip net.IP) []byte {
	b := make([]byte, 16)
	b[10], b[11] = 0xff, 0xff
	copy(b[12:], ip.To4())
	return b
}

type termPlan struct {
	Index               int    `json:"index"`
	Seed                int64  `json:"seed"`
	Shape               string `json:"traffic_shape"` // idle | steady | burst | flood
	Signal              string `json:"signal"`        // TERM | INT
	When                string `json:"signal_time"`   // after-ack | mid-burst | early
	Cycles              int    `json:"cycles"`
	Exporters           int    `json:"exporters"`
	Workers             int    `json:"workers"`
	Elements            bool   `json:"elements_file_installed"`
	Race                bool   `json:"race_build"`
	Delay               int    `json:"strace_recvfrom_delay_us"`
	RestartUnderTraffic bool   `json:"restart_under_traffic"`
	Shrink              bool   `json:"templates_shrink_in_later_cycles"`
	SecondSignalMs      int    `json:"second_signal_after_ms"`
	SinkStalls          bool   `json:"message_queue_sink_stops_reading_before_the_signal"`
	Mirror              bool   `json:"ipfix_and_sflow_mirroring_enabled"`
	Ballast             int    `json:"further_templates_per_exporter"` // a large site: the cache files reach several MiB
	StopAtBind          bool   `json:"second_life_is_stopped_the_moment_its_sockets_exist"`
	Only                string `json:"only_this_template_protocol_is_enabled,omitempty"`
}

type termWitness struct {
	Plan    termPlan `json:"plan"`
	Cycle   int      `json:"cycle"`
	Detail  string   `json:"detail"`
	Stderr  string   `json:"stderr_head,omitempty"`
	Latency float64  `json:"exit_latency_s,omitempty"`
}

var snapE []wire.Elem

var seqRe2 = map[string]*regexp.Regexp{"ipfix": regexp.MustCompile(`"SequenceNo":(\d+)`), "nf9": regexp.MustCompile(`"SeqNum":(\d+)`)}
var agentRe2 = regexp.MustCompile(`^\{"AgentID":"([^"]*)"`)

type libC struct {
	ic ipfix.MemCache
	nc netflow9.MemCache
}

func libDecode(proto string, addr16, d []byte, c *libC) []byte {
	defer func() { recover() }()
	ip := net.IP(append([]byte{}, addr16...))
	if proto == "ipfix" {
		msg, _ := ipfix.NewDecoder(ip, d).Decode(c.ic)
		if msg != nil && len(msg.DataSets) > 0 {
			b, err := msg.JSONMarshal(new(bytes.Buffer))
			if err == nil {
				return append([]byte{}, b...)
			}
		}
		return nil
	}
	msg, _ := netflow9.NewDecoder(ip, d).Decode(c.nc)
	if msg != nil && len(msg.DataSets) > 0 {
		b, err := msg.JSONMarshal(new(bytes.Buffer))
		if err == nil {
			return append([]byte{}, b...)
		}
	}
	return nil
}

type termStats struct {
	cycles, inflight, acked, foundInFile, decodedAfterRestart, signals int64
	optionsDecodedAfterRestart                                         int64
	stalledSinkSignals                                                 int64
	latMu                                                              sync.Mutex
	latencies                                                          []float64
	stderrCls                                                          map[string]int
	raceAttr                                                           map[string]int
}

// runTermPlan executes one plan: several stop/start cycles on the same files.
func runTermPlan(run *mon.Run, p termPlan, dir string, st *termStats) {
	g := mon.NewRNG(p.Seed, "term", p.Index)
	wit := func(cycle int, detail string, col *collector, lat float64) termWitness {
		w := termWitness{Plan: p, Cycle: cycle, Detail: detail, Latency: lat}
		if col != nil {
			w.Stderr = clip(col.stderr(), 3000)
		}
		return w
	}
	bin, err := buildBinary(p.Race)
	if err != nil {
		run.HarnessError(err.Error())
		return
	}
	sink, err := newSinkT()
	if err != nil {
		run.HarnessError(err.Error())
		return
	}
	defer sink.close()
	protos := []string{"ipfix", "nf9"}
	if p.Only != "" {
		protos = []string{p.Only}
	}
	ports := map[string]int{"ipfix": reservedPort(), "nf9": reservedPort(), "nf5": reservedPort(), "sflow": reservedPort()}
	statsPort := reservedPort()
	conf := map[string]string{
		"mq-name": "rawSocket", "mq-config-file": "mq.conf", "ipfix-rpc-enabled": "false", "dynamic-workers": "false",
		"stats-format": "rest", "stats-http-port": strconv.Itoa(statsPort), "stats-http-addr": "127.0.0.1",
		"pid-file":             filepath.Join(dir, "vflow.pid"),
		"ipfix-tpl-cache-file": filepath.Join(dir, "ipfix.templates"), "netflow9-tpl-cache-file": filepath.Join(dir, "nf9.templates"),
		"ipfix-port": strconv.Itoa(ports["ipfix"]), "netflow9-port": strconv.Itoa(ports["nf9"]), "netflow5-port": strconv.Itoa(ports["nf5"]), "sflow-port": strconv.Itoa(ports["sflow"]),
		"ipfix-workers": strconv.Itoa(p.Workers), "netflow9-workers": strconv.Itoa(p.Workers), "netflow5-workers": "2", "sflow-workers": "2",
	}
	if p.Mirror {
		// a third-party collector that just listens: the mirror path is live while the collector shuts down
		if ml, err := net.ListenUDP("udp4", &net.UDPAddr{IP: net.IPv4(127, 0, 0, 1)}); err == nil {
			defer ml.Close()
			go func() {
				b := make([]byte, 70000)
				for {
					if _, _, err := ml.ReadFromUDP(b); err != nil {
						return
					}
				}
			}()
			mp := strconv.Itoa(ml.LocalAddr().(*net.UDPAddr).Port)
			conf["ipfix-mirror-addr"], conf["ipfix-mirror-port"] = "127.0.0.1", mp
			conf["sflow-mirror-addr"], conf["sflow-mirror-port"] = "127.0.0.1", mp
		}
	}
	if p.Only != "" {
		// a site that collects one of the two template-bearing protocols only: the other listener is switched off
		// (round 14, C15-m: the remaining protocol's templates must be saved at the signal all the same)
		conf[map[string]string{"ipfix": "netflow9", "nf9": "ipfix"}[p.Only]+"-enabled"] = "false"
	}
	writeConf(dir, conf, sink.port)
	if p.Elements {
		b, _ := os.ReadFile(filepath.Join(mon.RepoDir(), "scripts", "ipfix.elements"))
		os.WriteFile(filepath.Join(dir, "ipfix.elements"), b, 0o644)
	}
	// exporters and their templates (one per protocol), accumulated over the cycles
	var exps []*exporterT
	o := wire.GenOpts{Elems: snapE, Reduced: true, MaxFields: 6, MaxStrLen: 10}
	setTemplates := func(e *exporterT, maxFields int, minFields int) {
		for _, proto := range protos {
			oo := o
			oo.MaxFields = maxFields
			oo.Varlen = proto == "ipfix"
			oo.OnlyPEN0 = true
			id := uint16(256)
			if old := e.Tpl[proto]; old != nil {
				id = old.ID
			} else {
				id = uint16(256 + g.Intn(4))
			}
			var t *wire.Template
			for {
				t = wire.GenTemplate(g, id, oo)
				if len(t.All()) >= minFields {
					break
				}
			}
			t.Options, t.Fields, t.Scope = false, t.All(), nil
			s := wire.Set{Kind: wire.SetTemplate, Templates: []*wire.Template{t}}
			e.Tpl[proto] = t
			e.TplD[proto], _ = wire.EncodeFlow(proto, []uint32{1, 2, 3, 4}, []wire.Set{s})
		}
	}
	newExporter := func(n int) *exporterT {
		e := &exporterT{IP: net.IPv4(127, byte(1+p.Index%200), byte(n/250), byte(1+n%250)).To4(), Tpl: map[string]*wire.Template{}, TplD: map[string][]byte{}}
		if p.Shrink {
			setTemplates(e, 30, 15)
			return e
		}
		for _, proto := range protos {
			oo := o
			oo.Varlen = proto == "ipfix"
			oo.OnlyPEN0 = true
			// a third of the exporters announce an options template (scope + option fields): what the cache
			// file holds for those differs in shape from a plain template
			oo.Options = n%3 == 1
			var t *wire.Template
			for try := 0; ; try++ {
				t = wire.GenTemplate(g, uint16(256+g.Intn(4)), oo)
				if t.Options == oo.Options || try > 50 {
					break
				}
			}
			s := wire.Set{Kind: wire.SetTemplate, Templates: []*wire.Template{t}}
			if t.Options {
				s.Kind = wire.SetOptTemplate
			} else {
				t.Fields, t.Scope = t.All(), nil
			}
			if proto == "nf9" {
				s.Pad = (4 - wire.SetLen(&s)%4) % 4
			}
			e.Tpl[proto] = t
			e.TplD[proto], _ = wire.EncodeFlow(proto, []uint32{1, 2, 3, 4}, []wire.Set{s})
		}
		return e
	}
	var seq uint32
	var tmu sync.Mutex // guards g, seq and sentSeq: senders run on their own goroutines in some shapes
	dataFor := func(e *exporterT, proto string) ([]byte, uint32) {
		tmu.Lock()
		defer tmu.Unlock()
		seq++
		t := e.Tpl[proto]
		s := wire.GenDataSet(g, t, g.Range(1, 3), o, 0)
		s.Pad = 0
		if proto == "nf9" {
			for (wire.SetLen(&s))%4 != 0 {
				need := (4 - wire.SetLen(&s)%4) % 4
				if need < t.MinRecLen() {
					s.Pad = need
					break
				}
				s.Records = append(s.Records, wire.GenRecord(g, t, o))
			}
		}
		var b []byte
		if proto == "ipfix" {
			b, _ = wire.EncodeFlow(proto, []uint32{g.U32(), seq, g.U32(), 0}, []wire.Set{s})
		} else {
			b, _ = wire.EncodeFlow(proto, []uint32{g.U32(), g.U32(), seq, g.U32()}, []wire.Set{s})
		}
		return b, seq
	}
	snd := newSender()
	defer snd.close()
	type ackKey struct {
		e     *exporterT
		proto string
	}
	acked := map[ackKey]bool{}     // acknowledged before some signal, cumulative
	sentSeq := map[uint32]ackKey{} // data sequence → key
	seenAt := func(lines []string) map[uint32]bool {
		out := map[uint32]bool{}
		for _, l := range lines {
			for _, proto := range protos {
				if m := seqRe2[proto].FindStringSubmatch(l); m != nil {
					v, _ := strconv.ParseUint(m[1], 10, 32)
					out[uint32(v)] = true
				}
			}
		}
		return out
	}
	var wrap []string
	if p.Delay > 0 {
		wrap = []string{"strace", "-f", "-o", "/dev/null", "-e", "trace=recvfrom", "-e", fmt.Sprintf("inject=recvfrom:delay_exit=%d", p.Delay)}
	}
	waitReady := func(col *collector) bool {
		deadline := time.Now().Add(15 * time.Second)
		for time.Now().Before(deadline) {
			if !col.alive() {
				return false
			}
			udp, _ := sockets(col.vflowPid())
			up := true
			for _, pr := range protos {
				up = up && udp[ports[pr]]
			}
			if up {
				return true
			}
			time.Sleep(5 * time.Millisecond)
		}
		return false
	}
	// noise exporters: their templates are announced in cycle 0 and they are never probed; they keep
	// sending DATA across the stop/start when the plan asks for a restart under traffic
	var noise []*exporterT
	if p.RestartUnderTraffic {
		for i := 0; i < 20; i++ {
			noise = append(noise, newExporter(60000+i))
		}
	}
	var bg sync.WaitGroup
	var bgStop int32
	defer func() { atomic.StoreInt32(&bgStop, 1); bg.Wait() }()
	for cycle := 0; cycle < p.Cycles; cycle++ {
		atomic.AddInt64(&st.cycles, 1)
		env := []string{}
		if p.Race {
			env = append(env, "GORACE=halt_on_error=0 exitcode=0 log_path="+filepath.Join(dir, fmt.Sprintf("race.c%d", cycle)))
		}
		col, err := startCollector(bin, dir, env, nil, wrap)
		if err != nil {
			run.HarnessError(err.Error())
			return
		}
		if !waitReady(col) {
			txt := col.stderr()
			col.kill()
			if ct := crashText(txt); ct != "" {
				run.Violation("term:crash-at-start", fmt.Sprintf("plan %d cycle %d: the collector crashed while starting: %s", p.Index, cycle, clip(ct, 500)), wit(cycle, "crash at start", col, 0))
			} else {
				run.Inconclusive(fmt.Sprintf("plan %d cycle %d: collector not ready: %s", p.Index, cycle, clip(txt, 300)))
			}
			return
		}
		if p.StopAtBind && cycle == 1 {
			// an operator (or a supervisor that changed its mind) stops the collector the moment it is up: its sockets
			// exist, whatever else start-up still has to do - such as reading multi-MiB cache files - may not be done.
			// The stop must be clean and must not cost the templates the files held: the next life is probed for them.
			syscall.Kill(col.vflowPid(), syscall.SIGTERM)
			atomic.AddInt64(&st.signals, 1)
			werr, exited := col.wait(20 * time.Second)
			if ct := crashText(col.stderr()); ct != "" {
				run.Violation("term:crash:stopped-at-start", fmt.Sprintf("plan %d cycle %d: the collector crashed when stopped right after its sockets were bound: %s", p.Index, cycle, clip(ct, 500)), wit(cycle, "crash", col, 0))
				col.kill()
				return
			}
			if !exited {
				col.kill()
				run.Violation("term:no-exit", fmt.Sprintf("plan %d cycle %d: the collector, stopped right after its sockets were bound, had not exited after 20 s", p.Index, cycle), wit(cycle, "no exit", col, 20))
				return
			}
			if werr != nil {
				run.Violation("term:exit-status", fmt.Sprintf("plan %d cycle %d: exit status after SIGTERM right after start: %v", p.Index, cycle, werr), wit(cycle, "exit status", col, 0))
			}
			continue
		}
		// ---- after a restart: data for every acknowledged template, WITHOUT templates, must be published
		if cycle > 0 && len(acked) > 0 {
			lib := &libC{ipfix.GetCache(""), netflow9.GetCache("")}
			type probe struct {
				key  ackKey
				seq  uint32
				want []byte
			}
			var probes []probe
			keys := make([]ackKey, 0, len(acked))
			for k := range acked {
				keys = append(keys, k)
			}
			sort.Slice(keys, func(i, j int) bool {
				if !keys[i].e.IP.Equal(keys[j].e.IP) {
					return bytes.Compare(keys[i].e.IP, keys[j].e.IP) < 0
				}
				return keys[i].proto < keys[j].proto
			})
			for _, k := range keys {
				libDecode(k.proto, mapped(k.e.IP), k.e.TplD[k.proto], lib)
				d, s := dataFor(k.e, k.proto)
				want := libDecode(k.proto, mapped(k.e.IP), d, lib)
				if want == nil {
					continue
				}
				probes = append(probes, probe{k, s, want})
				snd.send(k.e.IP, ports[k.proto], d)
				if len(probes)%50 == 0 {
					time.Sleep(2 * time.Millisecond)
				}
			}
			want := map[uint32]bool{}
			for _, pr := range probes {
				want[pr.seq] = true
			}
			allSeen := func(ls []string) bool {
				s := seenAt(ls)
				for q := range want {
					if !s[q] {
						return false
					}
				}
				return true
			}
			ok := sink.waitLines(allSeen, 4*time.Second)
			// UDP may drop datagrams (kernel buffer, full worker queue): a probe that did not come back is
			// sent again, slowly; the verdict below additionally needs the collector's own "unknown template" report
			for round := 0; round < 3 && !ok; round++ {
				seen := seenAt(sink.snapshot())
				for i := range probes {
					pr := &probes[i]
					if seen[pr.seq] {
						continue
					}
					d, s2 := dataFor(pr.key.e, pr.key.proto)
					delete(want, pr.seq)
					pr.seq = s2
					pr.want = libDecode(pr.key.proto, mapped(pr.key.e.IP), d, lib)
					want[s2] = true
					snd.send(pr.key.e.IP, ports[pr.key.proto], d)
					time.Sleep(300 * time.Microsecond)
				}
				ok = sink.waitLines(allSeen, 3*time.Second)
			}
			got := seenAt(sink.snapshot())
			lines := sink.snapshot()
			byAgentSeq := map[string]string{}
			for _, l := range lines {
				for _, proto := range protos {
					if m := seqRe2[proto].FindStringSubmatch(l); m != nil {
						if a := agentRe2.FindStringSubmatch(l); a != nil {
							byAgentSeq[a[1]+"|"+m[1]] = l
						}
					}
				}
			}
			missing := 0
			for _, pr := range probes {
				if !got[pr.seq] {
					missing++
					continue
				}
				atomic.AddInt64(&st.decodedAfterRestart, 1)
				if pr.key.e.Tpl[pr.key.proto].Options {
					atomic.AddInt64(&st.optionsDecodedAfterRestart, 1)
				}
				if l, okk := byAgentSeq[pr.key.e.IP.String()+"|"+fmt.Sprint(pr.seq)]; okk && l != string(pr.want) {
					run.Violation("term:restart-decodes-differently", fmt.Sprintf("plan %d cycle %d: after the restart data of exporter %s (%s) is published as %s; with the template acknowledged before the signal it is %s", p.Index, cycle, pr.key.e.IP, pr.key.proto, clip(l, 200), clip(string(pr.want), 200)), wit(cycle, "restart decodes differently", col, 0))
				}
			}
			if !ok && missing > 0 {
				// a template that really is gone shows in the collector's own log as "unknown ... template id#"
				logTxt := col.stderr()
				confirmed := 0
				var firstC probe
				for _, pr := range probes {
					if got[pr.seq] {
						continue
					}
					needle := fmt.Sprintf("%s unknown %s template id# %d", pr.key.e.IP, map[string]string{"ipfix": "ipfix", "nf9": "netflow"}[pr.key.proto], pr.key.e.Tpl[pr.key.proto].ID)
					if strings.Contains(logTxt, needle) {
						if confirmed == 0 {
							firstC = pr
						}
						confirmed++
					}
				}
				if confirmed > 0 {
					run.Violation("term:template-lost-across-restart", fmt.Sprintf("plan %d cycle %d: %d of %d (exporter,template) pairs acknowledged before the signal are reported as unknown templates after the restart (first: exporter %s %s template %d)", p.Index, cycle, confirmed, len(probes), firstC.key.e.IP, firstC.key.proto, firstC.key.e.Tpl[firstC.key.proto].ID),
						wit(cycle, "acknowledged template not usable after restart", col, 0))
				} else {
					run.Inconclusive(fmt.Sprintf("plan %d cycle %d: %d of %d probes never came back and the collector reported no unknown template: datagram loss", p.Index, cycle, missing, len(probes)))
				}
			}
		}
		// ---- traffic of this cycle
		nNew := p.Exporters
		if cycle > 0 {
			nNew = 1 + p.Exporters/4
		}
		if p.Shrink && cycle > 0 {
			// no new exporters; every exporter re-announces its template id with a much smaller definition, so
			// that the cache saved at the end of this cycle is SHORTER than the file left by the previous one
			nNew = 0
			for _, e := range exps {
				setTemplates(e, 1, 1)
			}
			for k := range acked {
				delete(acked, k) // acknowledgements refer to the superseded definitions
			}
			tmu.Lock()
			for q := range sentSeq {
				delete(sentSeq, q)
			}
			tmu.Unlock()
		}
		first := len(exps)
		if p.Shrink && cycle > 0 {
			first = 0
		}
		for i := 0; i < nNew; i++ {
			exps = append(exps, newExporter(first+i))
		}
		sendRound := func(from int, pace time.Duration) {
			if cycle == 0 {
				for _, e := range noise {
					for _, proto := range protos {
						snd.send(e.IP, ports[proto], e.TplD[proto])
					}
				}
			}
			for _, e := range exps[from:] {
				for _, proto := range protos {
					snd.send(e.IP, ports[proto], e.TplD[proto])
				}
			}
			if p.Ballast > 0 && cycle == 0 {
				// every exporter announces p.Ballast further templates of 25 fields (ids 300..): nothing is sent for
				// them, they only make the saved cache the size it has at a site with thousands of templates
				oo := o
				oo.MaxFields, oo.OnlyPEN0, oo.Options = 25, true, false
				for ei, e := range exps[from:] {
					for _, proto := range protos {
						oo.Varlen = proto == "ipfix"
						for b := 0; b < p.Ballast; b += 12 {
							var ts []*wire.Template
							for j := b; j < b+12 && j < p.Ballast; j++ {
								var t *wire.Template
								for {
									t = wire.GenTemplate(g, uint16(300+j), oo)
									if len(t.All()) >= 22 {
										break
									}
								}
								t.Fields, t.Scope, t.Options = t.All(), nil, false
								ts = append(ts, t)
							}
							set := wire.Set{Kind: wire.SetTemplate, Templates: ts}
							d, _ := wire.EncodeFlow(proto, []uint32{1, 2, 3, 4}, []wire.Set{set})
							snd.send(e.IP, ports[proto], d)
						}
					}
					if ei%10 == 9 {
						time.Sleep(2 * time.Millisecond)
					}
				}
			}
			time.Sleep(20 * time.Millisecond)
			for _, e := range exps[from:] {
				for _, proto := range protos {
					d, s := dataFor(e, proto)
					tmu.Lock()
					sentSeq[s] = ackKey{e, proto}
					tmu.Unlock()
					snd.send(e.IP, ports[proto], d)
				}
				if pace > 0 {
					time.Sleep(pace)
				}
			}
		}
		sigAt := time.Time{}
		sendSignal := func() {
			sg := syscall.SIGTERM
			if p.Signal == "INT" {
				sg = syscall.SIGINT
			}
			// what is acknowledged is fixed BEFORE the signal is sent
			s := seenAt(sink.snapshot())
			tmu.Lock()
			for q := range s {
				if k, ok := sentSeq[q]; ok {
					acked[k] = true
				}
			}
			tmu.Unlock()
			if fl, err := getFlow("127.0.0.1", statsPort); err == nil {
				busy := false
				for _, m := range fl {
					if m["UDPQueue"] > 0 || m["MessageQueue"] > 0 {
						busy = true
					}
				}
				if busy {
					atomic.AddInt64(&st.inflight, 1)
				}
			}
			sigAt = time.Now()
			syscall.Kill(col.vflowPid(), sg)
			atomic.AddInt64(&st.signals, 1)
			if p.SecondSignalMs > 0 {
				// an impatient operator or init script: the signal again while the graceful shutdown is under way
				pid := col.vflowPid()
				go func() {
					time.Sleep(time.Duration(p.SecondSignalMs) * time.Millisecond)
					syscall.Kill(pid, sg)
					atomic.AddInt64(&st.signals, 1)
				}()
			}
		}
		switch {
		case p.Shape == "idle":
			time.Sleep(time.Duration(g.Intn(300)) * time.Millisecond)
			sendSignal()
		case p.When == "early":
			// the signal arrives while run() is still initialising; traffic is already flowing
			wait := time.Duration(g.Intn(20)) * time.Millisecond
			done := make(chan struct{})
			go func() { sendRound(first, 0); close(done) }()
			time.Sleep(wait)
			sendSignal()
			<-done
		case p.When == "mid-burst":
			wait := time.Duration(5+g.Intn(60)) * time.Millisecond
			done := make(chan struct{})
			go func() { sendRound(first, 50*time.Microsecond); sendRound(0, 0); close(done) }()
			time.Sleep(wait)
			sendSignal()
			<-done
		default: // after-ack
			pace := 100 * time.Microsecond
			if p.Shape == "flood" {
				pace = 0
			}
			sendRound(first, pace)
			tmu.Lock()
			want := len(sentSeq)
			tmu.Unlock()
			sink.waitLines(func(ls []string) bool { return len(seenAt(ls)) >= want }, 3*time.Second)
			if p.Shape == "steady" {
				// keep a trickle going across the signal
				wait := time.Duration(g.Intn(50)) * time.Millisecond
				bg.Add(1)
				go func() {
					defer bg.Done()
					for k := 0; k < 200; k++ {
						e := exps[k%len(exps)]
						d, _ := dataFor(e, "ipfix")
						snd.send(e.IP, ports["ipfix"], d)
						time.Sleep(time.Millisecond)
					}
				}()
				time.Sleep(wait)
			}
			if p.SinkStalls {
				// the message-queue sink stops reading (a stalled broker) while decoded messages are still waiting:
				// the producer sits in a blocked write and the queue behind it is not empty when the signal comes
				sink.setStall(true)
				queued := false
				for k := 0; k < 60000 && !queued && col.alive(); k++ {
					e := exps[k%len(exps)]
					d, _ := dataFor(e, "ipfix")
					snd.send(e.IP, ports["ipfix"], d)
					if k%500 == 499 {
						if fl, err := getFlow("127.0.0.1", statsPort); err == nil && fl["IPFIX"]["MessageQueue"] > 0 {
							time.Sleep(50 * time.Millisecond)
							if fl2, err := getFlow("127.0.0.1", statsPort); err == nil && fl2["IPFIX"]["MessageQueue"] > 0 {
								queued = true
							}
						}
					}
				}
				if queued {
					atomic.AddInt64(&st.stalledSinkSignals, 1)
				}
			}
			sendSignal()
		}
		if p.RestartUnderTraffic && cycle == 0 {
			// the exporters never pause across the stop/start: traffic keeps arriving during shutdown and the next start-up
			bg.Add(1)
			go func() {
				defer bg.Done()
				gg := mon.NewRNG(p.Seed, "term-noise", p.Index)
				for k := 0; atomic.LoadInt32(&bgStop) == 0; k++ {
					e := noise[k%len(noise)]
					proto := []string{"nf9", "ipfix"}[k%2]
					t := e.Tpl[proto]
					s := wire.GenDataSet(gg, t, 1, o, 0)
					s.Pad = 0
					d, _ := wire.EncodeFlow(proto, []uint32{1, 4000000000, 4000000000, 4}, []wire.Set{s})
					snd.send(e.IP, ports[proto], d)
					time.Sleep(150 * time.Microsecond)
				}
			}()
		}
		// ---- the exit
		werr, exited := col.wait(20 * time.Second)
		sink.setStall(false)
		lat := time.Since(sigAt).Seconds()
		if exited {
			lat = col.exitAt.Sub(sigAt).Seconds()
		}
		st.latMu.Lock()
		st.latencies = append(st.latencies, lat)
		st.latMu.Unlock()
		txt := col.stderr()
		cls := "clean"
		if ct := crashText(txt); ct != "" {
			cls = "crash"
			site := "unknown"
			for _, l := range strings.Split(ct, "\n") {
				if strings.HasPrefix(l, "main.") || strings.HasPrefix(l, "github.com/EdgeCast/vflow/") {
					site = strings.TrimPrefix(l, "github.com/EdgeCast/vflow/")
					if i := strings.LastIndex(site, "("); i > 0 {
						site = site[:i]
					}
					break
				}
			}
			first := ct
			if i := strings.IndexByte(ct, '\n'); i > 0 {
				first = ct[:i]
			}
			run.Violation("term:crash:"+site+":"+digitsOut(first), fmt.Sprintf("plan %d cycle %d (%s, %s, signal %s): the collector crashed around the signal: %s", p.Index, cycle, p.Shape, p.When, p.Signal, clip(ct, 600)), wit(cycle, "crash", col, lat))
		}
		st.latMu.Lock()
		st.stderrCls[cls]++
		st.latMu.Unlock()
		if !exited {
			col.kill()
			run.Violation("term:no-exit", fmt.Sprintf("plan %d cycle %d: the collector had not exited 20 s after SIG%s", p.Index, cycle, p.Signal), wit(cycle, "no exit", col, lat))
			return
		}
		if cls != "crash" {
			if werr != nil {
				run.Violation("term:exit-status", fmt.Sprintf("plan %d cycle %d: exit status after SIG%s: %v", p.Index, cycle, p.Signal, werr), wit(cycle, "exit status", col, lat))
			} else if lat > 10 {
				run.Violation("term:slow-exit", fmt.Sprintf("plan %d cycle %d: exit took %.1f s after SIG%s", p.Index, cycle, lat, p.Signal), wit(cycle, "slow exit", col, lat))
			}
		}
		if p.Race {
			files, _ := filepath.Glob(filepath.Join(dir, fmt.Sprintf("race.c%d.*", cycle)))
			for _, rf := range files {
				rb, _ := os.ReadFile(rf)
				for _, blk := range strings.Split(string(rb), "==================\n") {
					if !strings.Contains(blk, "WARNING: DATA RACE") {
						continue
					}
					a := "unattributed"
					if strings.Contains(blk, "MemCache") || strings.Contains(blk, "GetCache") {
						a = "cache"
					} else if strings.Contains(blk, "LoadExtElements") {
						a = "info-model-at-start-up"
					} else if strings.Contains(blk, "Worker") && !strings.Contains(blk, ".run(") && !strings.Contains(blk, ".shutdown(") {
						a = "worker-buffers"
					}
					st.latMu.Lock()
					st.raceAttr[a]++
					st.latMu.Unlock()
					if a == "cache" {
						run.Violation("term:data-race:cache", fmt.Sprintf("plan %d cycle %d: race report involving the template cache in the running collector: %s", p.Index, cycle, clip(blk, 1500)), wit(cycle, clip(blk, 4000), col, lat))
					}
				}
			}
		}
		// ---- the cache files it left
		for _, proto := range protos {
			f := conf["ipfix-tpl-cache-file"]
			if proto == "nf9" {
				f = conf["netflow9-tpl-cache-file"]
			}
			b, err := os.ReadFile(f)
			if err != nil {
				run.Violation("term:cache-file-missing", fmt.Sprintf("plan %d cycle %d: no %s cache file after shutdown: %v", p.Index, cycle, proto, err), wit(cycle, "cache file missing", col, lat))
				continue
			}
			if !json.Valid(b) {
				run.Violation("term:cache-file-incomplete", fmt.Sprintf("plan %d cycle %d: the %s cache file (%d octets) is not a complete JSON document", p.Index, cycle, proto, len(b)), wit(cycle, "cache file incomplete", col, lat))
				continue
			}
			lib := &libC{ipfix.GetCache(f), netflow9.GetCache(f)}
			ref := &libC{ipfix.GetCache(""), netflow9.GetCache("")}
			miss := 0
			var firstMiss ackKey
			for k := range acked {
				if k.proto != proto {
					continue
				}
				libDecode(proto, mapped(k.e.IP), k.e.TplD[proto], ref)
				d, _ := dataFor(k.e, proto)
				want := libDecode(proto, mapped(k.e.IP), d, ref)
				got := libDecode(proto, mapped(k.e.IP), d, lib)
				if want != nil && !bytes.Equal(want, got) {
					if miss == 0 {
						firstMiss = k
					}
					miss++
				} else {
					atomic.AddInt64(&st.foundInFile, 1)
				}
			}
			if miss > 0 {
				run.Violation("term:acknowledged-template-not-in-file", fmt.Sprintf("plan %d cycle %d: %d acknowledged %s templates are missing from (or differ in) the cache file left at shutdown (first: exporter %s template %d)", p.Index, cycle, miss, proto, firstMiss.e.IP, firstMiss.e.Tpl[proto].ID), wit(cycle, "template missing from file", col, lat))
			}
		}
		atomic.StoreInt64(&st.acked, int64(len(acked)))
	}
}

var digitRe = regexp.MustCompile(`[0-9]+`)

func digitsOut(s string) string { return digitRe.ReplaceAllString(s, "N") }

func lastLines(s string, n int) string {
	l := strings.Split(strings.TrimSpace(s), "\n")
	if len(l) > n {
		l = l[len(l)-n:]
	}
	return strings.Join(l, " | ")
}

func termMain(args mon.Args) {
	run := mon.NewRun("C15", "e2e/term", "fault_enumeration")
	var err error
	snapE, err = wire.LoadSnapshot(mon.Root())
	if err != nil {
		run.HarnessError(err.Error())
		run.Finish()
	}
	dir := os.Getenv("VERIF_RUN")
	var plans []termPlan
	shapes := []struct{ shape, when string }{{"idle", "after-ack"}, {"steady", "after-ack"}, {"burst", "after-ack"}, {"burst", "mid-burst"}, {"flood", "after-ack"}, {"burst", "early"}}
	n := run.Pick(12, 200)
	for i := 0; i < n; i++ {
		s := shapes[i%len(shapes)]
		p := termPlan{Index: i, Seed: run.Seed, Shape: s.shape, When: s.when, Signal: []string{"TERM", "INT"}[(i/len(shapes))%2], Cycles: 2 + i%3,
			Exporters: []int{1, 20, 120, 500}[(i/2)%4], Workers: []int{4, 1, 16}[i%3], Elements: i%2 == 1, RestartUnderTraffic: i%4 == 3}
		if s.shape == "flood" {
			p.Workers = 1
			p.Exporters = 300
		}
		p.Mirror = s.shape == "steady" || i%4 == 3 // traffic keeps arriving across the signal in these: with mirroring on
		plans = append(plans, p)
	}
	// start-up under traffic (elements file installed, templates already in the cache file) and a read loop
	// stalled across the shutdown window (strace delays every recvfrom by 3 s): also in the quick tier
	for i := 0; i < run.Pick(4, 40); i++ {
		plans = append(plans, termPlan{Index: 500 + i, Seed: run.Seed, Shape: "burst", When: "after-ack", Signal: "TERM", Cycles: 8, Exporters: 30, Workers: 4, Elements: true, RestartUnderTraffic: true})
	}
	for i := 0; i < run.Pick(2, 10); i++ {
		plans = append(plans, termPlan{Index: 700 + i, Seed: run.Seed, Shape: "burst", When: "after-ack", Signal: []string{"TERM", "INT"}[i%2], Cycles: 3, Exporters: 25, Workers: 4, Shrink: true})
	}
	for i := 0; i < run.Pick(3, 12); i++ {
		plans = append(plans, termPlan{Index: 800 + i, Seed: run.Seed, Shape: "burst", When: "after-ack", Signal: []string{"TERM", "INT", "TERM"}[i%3], Cycles: 3, Exporters: 15, Workers: 4,
			SecondSignalMs: []int{300, 50, 700}[i%3]})
	}
	for i := 0; i < run.Pick(2, 8); i++ {
		plans = append(plans, termPlan{Index: 900 + i, Seed: run.Seed, Shape: "burst", When: "after-ack", Signal: []string{"TERM", "INT"}[i%2], Cycles: 2, Exporters: 10, Workers: 4, SinkStalls: true})
	}
	for i := 0; i < 2; i++ {
		plans = append(plans, termPlan{Index: 990 + i, Seed: run.Seed, Shape: "burst", When: "after-ack", Signal: []string{"TERM", "INT"}[i%2], Cycles: 3, Exporters: 12, Workers: 4, Only: []string{"nf9", "ipfix"}[i%2]})
	}
	for i := 0; i < run.Pick(1, 4); i++ {
		plans = append(plans, termPlan{Index: 950 + i, Seed: run.Seed, Shape: "burst", When: "after-ack", Signal: "TERM", Cycles: 2, Exporters: 120, Workers: 8, Ballast: 24})
	}
	for i := 0; i < run.Pick(1, 4); i++ {
		plans = append(plans, termPlan{Index: 970 + i, Seed: run.Seed, Shape: "burst", When: "after-ack", Signal: "TERM", Cycles: 3, Exporters: 120, Workers: 8, Ballast: 36, StopAtBind: true})
	}
	for i := 0; i < run.Pick(3, 0); i++ {
		plans = append(plans, termPlan{Index: 2000 + i, Seed: run.Seed, Shape: "flood", When: "after-ack", Signal: "TERM", Cycles: 2, Exporters: 60, Workers: 2, Delay: 3000000})
	}
	if run.Thorough() {
		for i := 0; i < 60; i++ {
			s := shapes[i%len(shapes)]
			plans = append(plans, termPlan{Index: 1000 + i, Seed: run.Seed, Shape: s.shape, When: s.when, Signal: "TERM", Cycles: 3, Exporters: 100, Workers: 4, Elements: true, Race: true, RestartUnderTraffic: i%2 == 0})
		}
		for i := 0; i < 20; i++ {
			plans = append(plans, termPlan{Index: 2000 + i, Seed: run.Seed, Shape: "flood", When: "after-ack", Signal: "TERM", Cycles: 2, Exporters: 200, Workers: 2, Delay: 3000000})
		}
	}
	if args.Replay != "" {
		d, err := mon.LoadReplay(args.Replay)
		if err != nil {
			run.HarnessError(err.Error())
			run.Finish()
		}
		var w termWitness
		json.Unmarshal(d.Case, &w)
		plans = nil
		for k := 0; k < 10; k++ {
			plans = append(plans, w.Plan)
		}
		fmt.Println("replay: schedule-determined witness; running the plan ten times")
	}
	st := &termStats{stderrCls: map[string]int{}, raceAttr: map[string]int{}}
	sem := make(chan struct{}, 12)
	var wg sync.WaitGroup
	for pi, p := range plans {
		wg.Add(1)
		sem <- struct{}{}
		go func(pi int, p termPlan) {
			defer wg.Done()
			defer func() { <-sem }()
			pdir := filepath.Join(dir, fmt.Sprintf("plan%d", pi))
			os.MkdirAll(pdir, 0o755)
			runTermPlan(run, p, pdir, st)
			run.Eval(1)
			run.Distinct(fmt.Sprintf("%s|%s|%s|c%d|e%d|w%d|el%v|race%v|delay%d|rut%v|shrink%v|second%d", p.Shape, p.When, p.Signal, p.Cycles, p.Exporters, p.Workers, p.Elements, p.Race, p.Delay, p.RestartUnderTraffic, p.Shrink, p.SecondSignalMs))
			if pi == 1 {
				run.Sample(p)
			}
		}(pi, p)
	}
	wg.Wait()
	sort.Float64s(st.latencies)
	lat := map[string]float64{}
	if n := len(st.latencies); n > 0 {
		lat["min"], lat["median"], lat["max"] = st.latencies[0], st.latencies[n/2], st.latencies[n-1]
	}
	run.Set("stop_start_cycles", st.cycles)
	run.Set("signals_sent", st.signals)
	run.Set("cycles_with_a_datagram_in_flight_at_signal_time", st.inflight)
	run.Set("templates_acknowledged_before_a_signal(last plan sizes summed)", st.acked)
	run.Set("acknowledged_templates_found_in_cache_files", st.foundInFile)
	run.Set("acknowledged_templates_decoded_after_restart_without_resending", st.decodedAfterRestart)
	run.Set("of_which_options_templates", st.optionsDecodedAfterRestart)
	run.Set("signals_sent_while_the_sink_was_stalled_and_messages_were_queued", st.stalledSinkSignals)
	run.Set("exit_latency_s", lat)
	run.Set("stderr_classes", st.stderrCls)
	run.Set("race_reports_by_attribution", st.raceAttr)
	if st.decodedAfterRestart == 0 && args.Replay == "" {
		run.HarnessError("no acknowledged template was ever probed after a restart: the monitor observed nothing")
	}
	run.SetRule("the real vflow binary with private ports/pid/cache files and a TCP sink (rawSocket producer); exporters emulated from 127.x.y.z source addresses. Plans enumerate traffic shape {idle, steady, burst of template announcements from 1-500 exporters, flood with 1 worker} × signal time {after acknowledgement, mid-burst, during start-up} × {SIGTERM, SIGINT} × 2-4 stop/start cycles on the same files × elements file installed or not × restart under continuing traffic × mirroring on in the plans whose traffic continues across the signal, plus plans in which every exporter re-announces a much smaller template in later cycles (the saved cache shrinks), plans in which the signal is repeated 50-700 ms into the shutdown, plans in which 120 exporters announce 24 further 25-field templates each so that the cache files reach several MiB (in one of them the second life is stopped the moment its sockets exist and a third is probed), and plans in which the message-queue sink stops reading before the signal so that decoded messages are still queued behind a blocked producer; thorough adds the race-built binary and strace recvfrom delay injection (3 s) that stalls the read loop across the shutdown window. Oracles: exit status 0, no panic/fatal on stderr, exit within 10 s, both cache files complete JSON and loadable with every template whose data had been seen at the sink before the signal, and after the restart data sent WITHOUT templates for every such (exporter,template) is published and equals the stand-alone decode. distinct = plan descriptor")
	run.Assume("'within a few seconds' = 10 s (the one wall-clock verdict: the property is about wall-clock time); signals are sent only after the collector has bound its sockets (a signal before signal.Notify kills any program)")
	run.Assume("'acknowledged' = a data message using that template was already seen at the sink before the signal was sent")
	run.Finish()
}
