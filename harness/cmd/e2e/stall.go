package main

import (
	"bytes"
	"fmt"
	"net"
	"os"
	"path/filepath"
	"strconv"
	"syscall"
	"time"

	"verif/harness/mon"
	"verif/harness/pipe"
)

// stallProcess (C12, C13; end-to-end): the consumer of the message queue stops reading for a while - a broker
// outage, TCP back-pressure - and then resumes, with the same worker goroutines alive before, during and after.
// While the producer sits in a blocked write the 1000-slot queue of each protocol fills and the workers refuse
// further messages (a legitimate loss, not judged); what the property still demands is that every message that
// IS published - before the stall, out of the backlog, and after the consumer resumed - is exactly the
// stand-alone decode of one datagram, at most once, and that publication resumes for datagrams that arrive
// after the queue has drained.
func stallProcess(run *mon.Run, prop, bin, dir string) {
	g := mon.NewRNG(run.Seed, "e2e-stall", 0)
	pdir := filepath.Join(dir, "stall")
	os.MkdirAll(pdir, 0o755)
	sink, err := newSinkT()
	if err != nil {
		run.HarnessError(err.Error())
		return
	}
	defer sink.close()
	protos := []string{"ipfix", "nf9", "nf5", "sflow"}
	ports := map[string]int{}
	statsPort := reservedPort()
	conf := map[string]string{
		"mq-name": "rawSocket", "mq-config-file": "mq.conf", "ipfix-rpc-enabled": "false", "dynamic-workers": "false",
		"stats-format": "rest", "stats-http-port": strconv.Itoa(statsPort), "stats-http-addr": "127.0.0.1",
		"pid-file": filepath.Join(pdir, "vflow.pid"), "ipfix-tpl-cache-file": filepath.Join(pdir, "i.tpl"), "netflow9-tpl-cache-file": filepath.Join(pdir, "n.tpl"),
	}
	for i, p := range protos {
		ports[p] = reservedPort()
		conf[protoNames[p].conf+"-port"] = strconv.Itoa(ports[p])
		conf[protoNames[p].conf+"-workers"] = strconv.Itoa([]int{1, 4, 2, 3}[i])
	}
	writeConf(pdir, conf, sink.port)
	desc := "consumer of the message queue stalls and resumes (workers ipfix=1 nf9=4 nf5=2 sflow=3)"
	col, err := startCollector(bin, pdir, nil, nil, nil)
	if err != nil {
		run.HarnessError(err.Error())
		return
	}
	defer col.kill()
	wit := func(detail string) blastWitness {
		return blastWitness{Seed: run.Seed, Index: 9000, Desc: desc, Detail: detail, Stderr: clip(col.stderr(), 2000)}
	}
	ready := false
	for d := time.Now().Add(15 * time.Second); time.Now().Before(d) && col.alive(); time.Sleep(5 * time.Millisecond) {
		udp, tcp := sockets(col.pid())
		ok := tcp[statsPort] != ""
		for _, p := range ports {
			ok = ok && udp[p]
		}
		if ok {
			ready = true
			break
		}
	}
	if !ready {
		run.Inconclusive(desc + ": collector not ready: " + clip(col.stderr(), 300))
		return
	}
	snd := newSender()
	defer snd.close()
	exps := [][]byte{mapped(net.IPv4(127, 91, 0, 1)), mapped(net.IPv4(127, 91, 0, 2)), mapped(net.IPv4(127, 91, 0, 3))}
	lib := pipe.NewLibCache()
	trs := map[string]*pipe.Traffic{}
	type sentD struct {
		proto string
		phase int
		d     []byte
		e     []byte
	}
	var all []sentD
	sentPer := map[string]int{}
	flow := func() flowStats {
		fl, _ := getFlow("127.0.0.1", statsPort)
		return fl
	}
	send := func(proto string, e, d []byte, phase int) {
		snd.send(net.IP(e[12:16]), ports[proto], d)
		sentPer[proto]++
		all = append(all, sentD{proto, phase, d, e})
		if sentPer[proto]%60 == 0 {
			for w := 0; w < 300 && col.alive(); w++ {
				if fl := flow(); fl != nil && int(fl[protoNames[proto].js]["UDPCount"])+int(kernelDrops(map[int]bool{ports[proto]: true})) >= sentPer[proto] {
					break
				}
				time.Sleep(2 * time.Millisecond)
			}
		}
	}
	for _, p := range protos {
		tr := pipe.NewTraffic(g, p, len(exps), 1464, snapE, true, false, exps...)
		trs[p] = tr
		for _, e := range exps {
			if t := tr.TplDgrams[mon.Hex(e)]; t != nil {
				send(p, e, t, 0)
				pipe.Standalone(p, e, t, lib, nil)
			}
		}
	}
	time.Sleep(150 * time.Millisecond)
	id := 700000
	burst := func(phase, n int, big bool) {
		for k := 0; k < n; k++ {
			for _, p := range protos {
				id++
				e := exps[k%len(exps)]
				send(p, e, trs[p].Data(e, id, big || k%2 == 0), phase)
			}
		}
	}
	// phase 1: healthy
	burst(1, 40, false)
	sink.waitLines(func(ls []string) bool { return len(ls) >= 4*40*8/10 }, 3*time.Second)
	// phase 2: the consumer stops reading; traffic goes on until every protocol's queue is full, and on
	sink.setStall(true)
	full := map[string]bool{}
	rounds := 0
	for ; rounds < 400 && len(full) < len(protos) && col.alive(); rounds++ {
		burst(2, 25, true)
		if fl := flow(); fl != nil {
			for _, p := range protos {
				if fl[protoNames[p].js]["MessageQueue"] >= 1000 {
					full[p] = true
				}
			}
		}
	}
	overflow := len(full)
	burst(2, 150, false) // these meet full queues: refused
	time.Sleep(300 * time.Millisecond)
	// phase 3: the consumer resumes
	sink.setStall(false)
	drained := false
	for w := 0; w < 1500 && col.alive(); w++ {
		if fl := flow(); fl != nil {
			z := true
			for _, p := range protos {
				if fl[protoNames[p].js]["MessageQueue"] > 0 {
					z = false
				}
			}
			if z {
				drained = true
				break
			}
		}
		time.Sleep(10 * time.Millisecond)
	}
	time.Sleep(200 * time.Millisecond)
	// phase 4: healthy again, same workers
	burst(4, 60, false)
	want4 := 0
	expect := make([][]byte, len(all))
	byKey := map[string]int{}
	ambiguous := map[string]bool{}
	for i, s := range all {
		if s.phase == 0 {
			continue
		}
		expect[i], _, _ = pipe.Standalone(s.proto, s.e, s.d, lib, nil)
		if expect[i] == nil {
			continue
		}
		k := s.proto + "|" + pipe.PayloadKey(s.proto, expect[i])
		if _, dup := byKey[k]; dup {
			ambiguous[k] = true
		}
		byKey[k] = i
		if s.phase == 4 {
			want4++
		}
	}
	for last, same := -1, 0; same < 30; { // until the sink has been quiet for 300 ms
		n := sink.count()
		if n == last {
			same++
		} else {
			last, same = n, 0
		}
		time.Sleep(10 * time.Millisecond)
	}
	lines := sink.snapshot()
	run.Eval(1)
	run.Distinct(desc)
	run.Set("stall_datagrams_sent", len(all))
	run.Set("stall_lines_at_the_sink", len(lines))
	run.Set("stall_protocols_whose_queue_was_seen_full", overflow)
	if ct := crashText(col.stderr()); ct != "" || !col.alive() {
		run.Violation("stall:collector-died", desc+": the collector died: "+clip(ct, 400), wit("died"))
		return
	}
	if overflow == 0 {
		run.Inconclusive(desc + ": no protocol's queue was ever seen full; the stall did not bite")
	}
	seen := map[string]int{}
	reported := map[string]bool{}
	for _, l := range lines {
		b := []byte(l)
		proto := "?"
		switch {
		case bytes.Contains(b, []byte(`"Header":{"Version":10,`)):
			proto = "ipfix"
		case bytes.Contains(b, []byte(`"Header":{"Version":9,`)):
			proto = "nf9"
		case bytes.Contains(b, []byte(`"Header":{"Version":5,`)):
			proto = "nf5"
		case bytes.HasPrefix(b, []byte(`{"Version":5,`)):
			proto = "sflow"
			b = pipe.MaskColTime(b)
		}
		k := proto + "|" + pipe.PayloadKey(proto, b)
		i, ok := byKey[k]
		if !ok {
			if !reported["foreign"] {
				reported["foreign"] = true
				w := wit("a line at the sink carries an identity that no sent datagram with records has")
				w.Got = clip(l, 900)
				run.Violation("stall:foreign-payload", fmt.Sprintf("%s: a line of %d octets at the sink matches no datagram that was sent", desc, len(l)), w)
			}
			continue
		}
		if ambiguous[k] {
			continue
		}
		seen[k]++
		if !bytes.Equal(b, expect[i]) && !reported[proto+"differs"] {
			reported[proto+"differs"] = true
			w := wit("published payload differs from the stand-alone decode of its datagram")
			w.Got, w.Want, w.Dgram = clip(string(b), 900), clip(string(expect[i]), 600), mon.Hex(all[i].d)
			run.Violation("stall:"+proto+":payload-differs", fmt.Sprintf("%s: a %s message published %s (%d octets) is not the stand-alone decode of its datagram (%d octets)", desc, proto, map[int]string{1: "before the stall", 2: "out of the backlog of the stall", 4: "after the consumer had resumed"}[all[i].phase], len(b), len(expect[i])), w)
		}
		if seen[k] == 2 && !reported[proto+"twice"] {
			reported[proto+"twice"] = true
			run.Violation("stall:"+proto+":published-twice", fmt.Sprintf("%s: a %s datagram of phase %d was published twice", desc, proto, all[i].phase), wit("duplicate"))
		}
	}
	// bounded progress: with the queues drained, what arrives afterwards is published again
	portSet := map[int]bool{}
	for _, p := range ports {
		portSet[p] = true
	}
	if drained && kernelDrops(portSet) == 0 {
		got4 := 0
		for k, i := range byKey {
			if all[i].phase == 4 && seen[k] > 0 {
				got4++
			}
		}
		run.Set("stall_messages_published_after_the_consumer_resumed", got4)
		if got4 < want4 && prop == "C13" {
			run.Violation("stall:no-resumption", fmt.Sprintf("%s: %d of %d decodable datagrams sent after the queues had drained were never published", desc, want4-got4, want4), wit("publication did not resume"))
		}
	} else if !drained {
		run.Inconclusive(desc + ": the queues did not drain within 15 s after the consumer resumed")
	}
	col.cmd.Process.Signal(syscall.SIGTERM)
	col.wait(10 * time.Second)
}
