package main

import (
	"bytes"
	"encoding/json"
	"fmt"
	"net"
	"os"
	"path/filepath"
	"strconv"
	"strings"
	"syscall"
	"time"

	"github.com/EdgeCast/vflow/ipfix"
	netflow9 "github.com/EdgeCast/vflow/netflow/v9"

	"verif/harness/mon"
	"verif/harness/wire"
)

// cacheNamesMain (end-to-end tier of C10 and C11): the two template caches of one collector are saved at the same
// moment (main() runs the protocols' shutdown concurrently) and loaded at the next start, under whatever names the
// site configured: names that share a stem or a directory, names relative to the working directory, names with
// several dots. Whatever the names, (a) the two saves must not disturb each other - after the restart the NetFlow v9
// cache holds what NetFlow v9 exporters announced and the IPFIX cache what IPFIX exporters announced - and (b) what
// was saved is what is loaded: data sent after the restart without templates is published exactly as its
// stand-alone decode under the template its own exporter announced over its own protocol.
//
// The same exporter addresses and the same template ids are used over both protocols, with different
// definitions, so that a cache that ends up with the other protocol's content decodes differently, not "luckily".
func cacheNamesMain(args mon.Args) {
	run := mon.NewRun(args.Prop, "e2e/cachenames", "exploration")
	var err error
	snapE, err = wire.LoadSnapshot(mon.Root())
	if err != nil {
		run.HarnessError(err.Error())
		run.Finish()
	}
	bin, err := buildBinary(false)
	if err != nil {
		run.HarnessError(err.Error())
		run.Finish()
	}
	dir := os.Getenv("VERIF_RUN")
	type naming struct {
		name       string
		ipfix, nf9 string // as written in the configuration; relative names are relative to the working directory
		mk         []string
	}
	namings := []naming{
		{"absolute names, same directory, same stem (templates.ipfix / templates.nf9)", "$P/cache/templates.ipfix", "$P/cache/templates.nf9", []string{"cache"}},
		{"relative names, working directory differs from the configuration directory", "ipfix.templates", "netflow9.templates", nil},
		{"absolute names with several dots (vflow.templates.v10 / vflow.templates.v9)", "$P/cache/vflow.templates.v10", "$P/cache/vflow.templates.v9", []string{"cache"}},
		{"same file name in two directories", "$P/a/templates", "$P/b/templates", []string{"a", "b"}},
		{"relative names in a sub-directory of the working directory, same stem", "var/tpl.ipfix", "var/tpl.netflow9", []string{"cwd/var"}},
		{"names without extension in one directory", "$P/cache/ipfixcache", "$P/cache/netflow9cache", []string{"cache"}},
	}
	if !run.Thorough() {
		namings = namings[:3]
	}
	if args.Replay != "" {
		d, err := mon.LoadReplay(args.Replay)
		if err == nil {
			var w blastWitness
			if json.Unmarshal(d.Case, &w) == nil && w.Index < len(namings) {
				run.Seed = w.Seed
				namings = namings[w.Index : w.Index+1]
			}
		}
	}
	var lives, announced, decodedAfter, ballast int64
	for ni, nm := range namings {
		g := mon.NewRNG(run.Seed, "e2e-names", ni)
		pdir := filepath.Join(dir, fmt.Sprintf("names%d", ni))
		confDir, cwd := filepath.Join(pdir, "conf"), filepath.Join(pdir, "cwd")
		os.MkdirAll(confDir, 0o755)
		os.MkdirAll(cwd, 0o755)
		for _, m := range nm.mk {
			os.MkdirAll(filepath.Join(pdir, m), 0o755)
		}
		sink, err := newSinkT()
		if err != nil {
			run.HarnessError(err.Error())
			continue
		}
		ports := map[string]int{"ipfix": reservedPort(), "nf9": reservedPort()}
		statsPort := reservedPort()
		conf := map[string]string{
			"mq-name": "rawSocket", "mq-config-file": "mq.conf", "ipfix-rpc-enabled": "false", "dynamic-workers": "false",
			"stats-format": "rest", "stats-http-port": strconv.Itoa(statsPort), "stats-http-addr": "127.0.0.1",
			"pid-file":             filepath.Join(pdir, "vflow.pid"),
			"ipfix-tpl-cache-file": strings.ReplaceAll(nm.ipfix, "$P", pdir), "netflow9-tpl-cache-file": strings.ReplaceAll(nm.nf9, "$P", pdir),
			"sflow-enabled": "false", "netflow5-enabled": "false",
			"ipfix-port": strconv.Itoa(ports["ipfix"]), "netflow9-port": strconv.Itoa(ports["nf9"]), "ipfix-workers": "3", "netflow9-workers": "3",
		}
		writeConf(confDir, conf, sink.port)
		desc := "cache files: " + nm.name
		wit := func(col *collector, detail string) blastWitness {
			return blastWitness{Seed: run.Seed, Index: ni, Desc: desc, Detail: detail, Stderr: clip(col.stderr(), 2500)}
		}
		start := func() *collector {
			col, err := startCollector(bin, confDir, nil, nil, []string{"env", "-C", cwd})
			if err != nil {
				run.HarnessError(err.Error())
				return nil
			}
			for d := time.Now().Add(15 * time.Second); time.Now().Before(d) && col.alive(); time.Sleep(5 * time.Millisecond) {
				udp, tcp := sockets(col.pid())
				if udp[ports["ipfix"]] && udp[ports["nf9"]] && tcp[statsPort] != "" {
					lives++
					return col
				}
			}
			run.Inconclusive(desc + ": collector not ready: " + clip(col.stderr(), 300))
			col.kill()
			return nil
		}
		// exporters and their templates: the same (address, id) pairs over both protocols, different definitions
		type key struct {
			ip net.IP
			id uint16
		}
		var keys []key
		for e := 0; e < 3; e++ {
			for _, id := range []uint16{256, 257, 300} {
				keys = append(keys, key{net.IPv4(127, 66, byte(ni), byte(1+e)).To4(), id})
			}
		}
		tpl := map[string][]*wire.Template{}
		lib := map[string]*libC{}
		o := wire.GenOpts{Elems: snapE, Reduced: true, MaxFields: 8, MaxStrLen: 8, OnlyPEN0: true}
		for _, proto := range []string{"ipfix", "nf9"} {
			lib[proto] = &libC{ic: ipfix.GetCache(""), nc: netflow9.GetCache("")}
			oo := o
			oo.Varlen = proto == "ipfix"
			for ki, k := range keys {
				var t *wire.Template
				for {
					t = wire.GenTemplate(g, k.id, oo)
					t.Fields, t.Scope, t.Options = t.All(), nil, false
					if proto == "ipfix" || t.MinRecLen() != tpl["ipfix"][ki].MinRecLen() {
						break // the two protocols' definitions of one (exporter, id) cannot be mistaken for each other
					}
				}
				tpl[proto] = append(tpl[proto], t)
			}
		}
		seq := uint32(5000)
		dataFor := func(proto string, t *wire.Template) ([]byte, uint32) {
			seq++
			s := wire.GenDataSet(g, t, 2, o, 0)
			s.Pad = 0
			if proto == "nf9" {
				for wire.SetLen(&s)%4 != 0 {
					need := (4 - wire.SetLen(&s)%4) % 4
					if need < t.MinRecLen() {
						s.Pad = need
						break
					}
					s.Records = append(s.Records, wire.GenRecord(g, t, o))
				}
			}
			hdr := []uint32{7, seq, 9, 0}
			if proto == "nf9" {
				hdr = []uint32{7, 8, seq, 9}
			}
			b, _ := wire.EncodeFlow(proto, hdr, []wire.Set{s})
			return b, seq
		}
		lineOf := func(proto string, sq uint32, d time.Duration) (string, bool) {
			var found string
			ok := sink.waitLines(func(ls []string) bool {
				for _, l := range ls {
					if m := seqRe2[proto].FindStringSubmatch(l); m != nil && m[1] == fmt.Sprint(sq) {
						found = l
						return true
					}
				}
				return false
			}, d)
			return found, ok
		}
		snd := newSender()
		// life 1: announce, and see each template acknowledged by a decoded data message
		col := start()
		if col == nil {
			sink.close()
			snd.close()
			continue
		}
		acked := true
		anns := map[string][][]byte{}
		for _, proto := range []string{"ipfix", "nf9"} {
			for ki, k := range keys {
				ann, _ := wire.EncodeFlow(proto, []uint32{1, 2, 3, 4}, []wire.Set{{Kind: wire.SetTemplate, Templates: []*wire.Template{tpl[proto][ki]}}})
				libDecodeAny(proto, mapped(k.ip), ann, lib[proto])
				anns[proto] = append(anns[proto], ann)
				snd.send(k.ip, ports[proto], ann)
				announced++
			}
		}
		// ballast: further exporters announce one template each, so that saving a cache takes milliseconds and the two
		// concurrent saves at shutdown really overlap
		for _, bl := range []struct {
			proto string
			n     int
		}{{"ipfix", 5000}, {"nf9", 4000}} {
			oo := o
			oo.Varlen = bl.proto == "ipfix"
			for i := 0; i < bl.n; i++ {
				t := wire.GenTemplate(g, uint16(400+i%5), oo)
				t.Fields, t.Scope, t.Options = t.All(), nil, false
				ann, _ := wire.EncodeFlow(bl.proto, []uint32{1, 2, 3, 4}, []wire.Set{{Kind: wire.SetTemplate, Templates: []*wire.Template{t}}})
				snd.send(net.IPv4(127, 67, byte(i/250), byte(1+i%250)).To4(), ports[bl.proto], ann)
				if i%100 == 99 {
					for w := 0; w < 200; w++ {
						if fl, err := getFlow("127.0.0.1", statsPort); err == nil && int(fl[protoNames[bl.proto].js]["UDPCount"]) >= i+1 {
							break
						}
						time.Sleep(2 * time.Millisecond)
					}
				}
			}
			ballast += int64(bl.n)
		}
		time.Sleep(100 * time.Millisecond) // the announcements are taken in before the first data goes out
		for _, proto := range []string{"ipfix", "nf9"} {
			sqs := make([]uint32, len(keys))
			for ki, k := range keys {
				b, sq := dataFor(proto, tpl[proto][ki])
				snd.send(k.ip, ports[proto], b)
				sqs[ki] = sq
			}
			for ki, k := range keys {
				_, ok := lineOf(proto, sqs[ki], 800*time.Millisecond)
				for try := 0; try < 4 && !ok; try++ {
					snd.send(k.ip, ports[proto], anns[proto][ki])
					time.Sleep(30 * time.Millisecond)
					b, sq := dataFor(proto, tpl[proto][ki])
					snd.send(k.ip, ports[proto], b)
					_, ok = lineOf(proto, sq, 500*time.Millisecond)
				}
				if !ok {
					acked = false
				}
			}
		}
		run.Eval(1)
		run.Distinct(desc)
		if !acked {
			if ct := crashText(col.stderr()); ct != "" || !col.alive() {
				run.Violation("names:collector-died", desc+": the collector died in its first life: "+clip(ct, 400), wit(col, "died"))
			} else {
				run.Inconclusive(desc + ": not every announced template was acknowledged by a decoded message in the first life")
			}
			col.kill()
			sink.close()
			snd.close()
			continue
		}
		col.cmd.Process.Signal(syscall.SIGTERM)
		if werr, ok := col.wait(15 * time.Second); !ok || werr != nil {
			run.Violation("names:stop", fmt.Sprintf("%s: SIGTERM: exited=%v status=%v", desc, ok, werr), wit(col, "stop"))
			col.kill()
			sink.close()
			snd.close()
			continue
		}
		life1Log := col.stderr()
		// the collector's own word: a save that reports failure in a directory where nothing prevents writing
		if i := strings.Index(life1Log, "dump template"); i >= 0 {
			j := strings.LastIndex(life1Log[:i], "\n") + 1
			w := wit(col, "the collector reports that saving a template cache failed")
			run.Violation("names:save-reported-failure", fmt.Sprintf("%s: at the clean stop of the first life the collector reports: %s", desc, clip(life1Log[j:], 300)), w)
			col.kill()
			sink.close()
			snd.close()
			continue
		}
		// lives 2 and 3: same configuration, same working directory; data only - in the second life the templates are
		// used, never re-announced, and saved again at its stop; the third life must still have them
		failed := false
		for life := 2; life <= 3 && !failed; life++ {
			if life == 3 {
				col.cmd.Process.Signal(syscall.SIGTERM)
				if werr, ok := col.wait(15 * time.Second); !ok || werr != nil {
					run.Violation("names:stop", fmt.Sprintf("%s: SIGTERM of the second life: exited=%v status=%v", desc, ok, werr), wit(col, "stop"))
					failed = true
					break
				}
			}
			col = start()
			if col == nil {
				failed = true
				break
			}
			for _, proto := range []string{"ipfix", "nf9"} {
				reported := false
				for ki, k := range keys {
					if reported {
						break
					}
					var b []byte
					var sq uint32
					var line string
					ok := false
					for try := 0; try < 4 && !ok; try++ {
						b, sq = dataFor(proto, tpl[proto][ki])
						snd.send(k.ip, ports[proto], b)
						line, ok = lineOf(proto, sq, 500*time.Millisecond)
					}
					want := libDecode(proto, mapped(k.ip), b, lib[proto])
					if want == nil {
						continue
					}
					w := wit(col, fmt.Sprintf("in life %d", life))
					w.Want = clip(string(want), 600)
					w.Stderr = "first life: " + clip(life1Log, 1200) + "\nsecond life: " + clip(col.stderr(), 1200)
					if !ok {
						log := col.stderr()
						if ct := crashText(log); ct != "" || !col.alive() {
							run.Violation("names:collector-died", desc+": the collector died in its second life: "+clip(ct, 400), w)
							reported = true
						} else if strings.Contains(log, fmt.Sprintf("template id# %d", k.id)) || strings.Contains(log, "unknown") {
							run.Violation("names:"+proto+":templates-lost-across-restart", fmt.Sprintf("%s: exporter %v announced %s template %d in the first life and saw it decode; in life %d (clean stops, same configuration, same working directory, no re-announcement) its data is not decoded any more (the collector reports an unknown template)", desc, k.ip, proto, k.id, life), w)
							reported = true
						} else {
							run.Inconclusive(fmt.Sprintf("%s: %s data of exporter %v was not published after the restart and the collector's log does not say why", desc, proto, k.ip))
							reported = true
						}
						continue
					}
					decodedAfter++
					if !bytes.Equal([]byte(line), want) {
						w.Got = clip(line, 600)
						run.Violation("names:"+proto+":decoded-with-a-foreign-template", fmt.Sprintf("%s: in life %d %s data of exporter %v, template %d, is published differently from its decode under the template that exporter announced over %s in the first life", desc, life, proto, k.ip, k.id, proto), w)
						reported = true
					}
				}
				if reported {
					failed = true
				}
			}
		}
		if col == nil {
			sink.close()
			snd.close()
			continue
		}
		if ct := crashText(col.stderr()); ct != "" {
			run.Violation("names:crash", desc+": "+clip(ct, 400), wit(col, "crash"))
		}
		col.cmd.Process.Signal(syscall.SIGTERM)
		col.wait(15 * time.Second)
		col.kill()
		sink.close()
		snd.close()
	}
	run.Set("collector_lives", lives)
	run.Set("ballast_templates_announced_by_other_exporters", ballast)
	run.Set("templates_announced_and_acknowledged_in_the_first_life", announced)
	run.Set("data_messages_decoded_after_the_restart_without_templates", decodedAfter)
	run.SetRule("end-to-end tier: the real binary with both template caches enabled, two lives per cache-file naming (names sharing a stem in one directory, relative names with a working directory that is not the configuration directory, names with several dots; thorough adds the same name in two directories, relative sub-directory names, names without extension). Life 1: 3 exporters x 3 template ids announce over IPFIX and over NetFlow v9 (same addresses and ids, different definitions) and each template is acknowledged by a decoded message, 5000 / 4000 further exporters announce one template each (saving takes milliseconds, the two saves overlap); SIGTERM (both caches are saved concurrently). Lives 2 and 3, same configuration and working directory, nothing re-announced: data without templates must be published exactly as its stand-alone decode under the template announced over its own protocol (the third life starts from what the second one saved). distinct = naming")
	run.Assume("where a relative name is resolved is the collector's business; only that both lives of one configuration agree on it is judged")
	run.Finish()
}
