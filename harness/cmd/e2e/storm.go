package main

import (
	"fmt"
	"net"
	"os"
	"path/filepath"
	"regexp"
	"strconv"
	"strings"
	"time"

	"verif/harness/mon"
	"verif/harness/pipe"
)

var stormFrameRe = regexp.MustCompile(`(?m)^  ([^\s(]+(?:\([^)]*\))?[^\s(]*)\(`)

// stormProcess (C01 only): cache entries carry the time of their announcement, and exporters repeat
// their templates unchanged for as long as they run. "The same definitions again, seconds later, from
// hundreds of exporters at once, decoded by many workers" is therefore everyday traffic - and the one
// kind no sub-second run produces. One collector process (32 workers per protocol, race-detector
// build) takes the first announcements of 300 exporters, then bursts of unchanged re-announcements
// mixed with data around two wall-clock second boundaries.
//
// Refuting events: the process dies (panic / fatal error), or the race detector reports an
// unsynchronised access to a Go map from collector code - the access pattern the Go runtime turns
// into the unrecoverable "fatal error: concurrent map writes / concurrent map read and map write"
// whenever the two accesses happen to meet, i.e. a crash this traffic can cause on some schedule.
// Race reports that do not involve a map operation are not C01's business and are only counted.
func stormProcess(run *mon.Run, dir string) {
	bin, err := buildBinary(true)
	if err != nil {
		run.Inconclusive("storm tier: " + err.Error())
		return
	}
	g := mon.NewRNG(run.Seed, "storm", 0)
	pdir := filepath.Join(dir, "storm")
	os.MkdirAll(pdir, 0o755)
	sink, err := newSinkT()
	if err != nil {
		run.HarnessError(err.Error())
		return
	}
	defer sink.close()
	ports := map[string]int{"ipfix": reservedPort(), "nf9": reservedPort(), "nf5": reservedPort(), "sflow": reservedPort()}
	statsPort := reservedPort()
	conf := map[string]string{
		"mq-name": "rawSocket", "mq-config-file": "mq.conf", "ipfix-rpc-enabled": "false", "dynamic-workers": "false",
		"stats-format": "rest", "stats-http-port": strconv.Itoa(statsPort), "stats-http-addr": "127.0.0.1",
		"pid-file": filepath.Join(pdir, "vflow.pid"), "ipfix-tpl-cache-file": filepath.Join(pdir, "i.tpl"), "netflow9-tpl-cache-file": filepath.Join(pdir, "n.tpl"),
		"ipfix-port": strconv.Itoa(ports["ipfix"]), "netflow9-port": strconv.Itoa(ports["nf9"]), "netflow5-port": strconv.Itoa(ports["nf5"]), "sflow-port": strconv.Itoa(ports["sflow"]),
		"ipfix-workers": "32", "netflow9-workers": "32", "netflow5-workers": "2", "sflow-workers": "2",
	}
	writeConf(pdir, conf, sink.port)
	desc := "storm collector (race build) workers=32: unchanged template re-announcements of 300 exporters around second boundaries"
	col, err := startCollector(bin, pdir, []string{"GORACE=halt_on_error=0 exitcode=0 log_path=" + filepath.Join(pdir, "race")}, nil, nil)
	if err != nil {
		run.HarnessError(err.Error())
		return
	}
	defer col.kill()
	wit := func(detail string) blastWitness {
		return blastWitness{Seed: run.Seed, Index: -1, Desc: desc, Detail: detail, Stderr: clip(col.stderr(), 2500)}
	}
	ready := false
	for d := time.Now().Add(30 * time.Second); time.Now().Before(d) && col.alive(); time.Sleep(5 * time.Millisecond) {
		udp, tcp := sockets(col.pid())
		if udp[ports["ipfix"]] && udp[ports["nf9"]] && tcp[statsPort] != "" {
			ready = true
			break
		}
	}
	if !ready {
		run.Inconclusive(desc + ": collector not ready: " + clip(col.stderr(), 300))
		return
	}
	snd := newSender()
	defer snd.close()
	var exps [][]byte
	for i := 0; i < 300; i++ {
		exps = append(exps, mapped(net.IPv4(127, 77, byte(1+i/250), byte(1+i%250))))
	}
	trs := map[string]*pipe.Traffic{}
	sent := map[string]int{}
	send := func(proto string, e, d []byte) {
		snd.send(net.IP(e[12:16]), ports[proto], d)
		sent[proto]++
		if sent[proto]%200 == 0 { // stay inside the socket buffer: the collector must really take the datagrams in
			for w := 0; w < 400 && col.alive(); w++ {
				fl, err := getFlow("127.0.0.1", statsPort)
				if err == nil && int(fl[protoNames[proto].js]["UDPCount"])+int(kernelDrops(map[int]bool{ports[proto]: true})) >= sent[proto]-50 {
					break
				}
				time.Sleep(time.Millisecond)
			}
		}
	}
	for _, proto := range []string{"ipfix", "nf9"} {
		trs[proto] = pipe.NewTraffic(g, proto, len(exps), 1500, snapE, true, false, exps...)
		for _, e := range exps {
			send(proto, e, trs[proto].TplDgrams[mon.Hex(e)])
		}
	}
	rounds := run.Pick(2, 6)
	reann := 0
	id := 0
	for round := 0; round < rounds && col.alive(); round++ {
		next := time.Now().Truncate(time.Second).Add(time.Second)
		if time.Until(next) < 150*time.Millisecond {
			next = next.Add(time.Second)
		}
		time.Sleep(time.Until(next) - 100*time.Millisecond)
		stop := next.Add(150 * time.Millisecond)
		for time.Now().Before(stop) && col.alive() {
			for _, proto := range []string{"ipfix", "nf9"} {
				e := exps[g.Intn(len(exps))]
				send(proto, e, trs[proto].TplDgrams[mon.Hex(e)])
				reann++
				id++
				send(proto, e, trs[proto].Data(e, id, false))
			}
		}
	}
	// let the queues drain
	for w := 0; w < 500 && col.alive(); w++ {
		fl, err := getFlow("127.0.0.1", statsPort)
		if err == nil && fl["IPFIX"]["UDPQueue"] == 0 && fl["NetflowV9"]["UDPQueue"] == 0 {
			break
		}
		time.Sleep(10 * time.Millisecond)
	}
	time.Sleep(100 * time.Millisecond)
	run.Eval(1)
	run.Distinct(desc)
	run.Add("storm_identical_reannouncements", int64(reann))
	run.Add("storm_second_boundaries", int64(rounds))
	if ct := crashText(col.stderr()); ct != "" || !col.alive() {
		run.Violation("blast:storm:collector-died", desc+": the collector died: "+clip(ct, 500), wit("collector died"))
		return
	}
	for _, proto := range []string{"ipfix", "nf9"} {
		fl, err := getFlow("127.0.0.1", statsPort)
		if err != nil || int(fl[protoNames[proto].js]["DecodedCount"]) < sent[proto]/2 {
			run.Inconclusive(fmt.Sprintf("%s: %s decoded less than half of the %d datagrams sent", desc, proto, sent[proto]))
		}
	}
	// race reports of the collector process
	files, _ := filepath.Glob(filepath.Join(pdir, "race.*"))
	mapRaces, otherRaces := map[string]string{}, 0
	for _, rf := range files {
		rb, _ := os.ReadFile(rf)
		for _, blk := range strings.Split(string(rb), "==================\n") {
			if !strings.Contains(blk, "WARNING: DATA RACE") {
				continue
			}
			if !strings.Contains(blk, "runtime.map") {
				otherRaces++
				continue
			}
			site := "?"
			for _, m := range stormFrameRe.FindAllStringSubmatch(blk, -1) {
				if strings.HasPrefix(m[1], "github.com/EdgeCast/vflow/") || strings.HasPrefix(m[1], "main.") {
					site = strings.TrimPrefix(m[1], "github.com/EdgeCast/vflow/")
					break
				}
			}
			if _, dup := mapRaces[site]; !dup {
				mapRaces[site] = blk
			}
		}
	}
	run.Add("storm_race_reports_not_involving_a_map", int64(otherRaces))
	for site, blk := range mapRaces {
		w := wit("unsynchronised map access")
		w.Got = clip(blk, 3000)
		run.Violation("blast:storm:concurrent-map-access:"+site, desc+": the race detector saw unsynchronised accesses to a Go map (the runtime kills the process with 'fatal error: concurrent map writes' / 'concurrent map read and map write' whenever such accesses meet): "+clip(blk, 900), w)
	}
}
