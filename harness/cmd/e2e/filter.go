package main

import (
	"bytes"
	"fmt"
	"net"
	"os"
	"path/filepath"
	"strconv"
	"strings"
	"syscall"
	"time"

	"verif/harness/mon"
	"verif/harness/pipe"
	"verif/harness/wire"
)

// filterMain is the end-to-end tier of C18: the filter list as the binary really gets it (command
// line, repeated flags, configuration file, both) and what then reaches the sink.
func filterMain(args mon.Args) {
	run := mon.NewRun("C18", "e2e/filter", "exploration")
	var err error
	snapE, err = wire.LoadSnapshot(mon.Root())
	if err != nil {
		run.HarnessError(err.Error())
		run.Finish()
	}
	bin, err := buildBinary(false)
	if err != nil {
		run.HarnessError(err.Error())
		run.Finish()
	}
	dir := os.Getenv("VERIF_RUN")
	type fcfg struct {
		name   string
		file   string   // value of sflow-type-filter in vflow.conf ("" = absent)
		flags  []string // command line
		expect []uint32 // the list the decoder must be given (the flag appends to what the file provides)
	}
	cfgs := []fcfg{
		{"no filter", "", nil, nil},
		{"flag 2", "", []string{"-sflow-type-filter", "2"}, []uint32{2}},
		{"flag 1", "", []string{"-sflow-type-filter", "1"}, []uint32{1}},
		{"flag 1,2", "", []string{"-sflow-type-filter", "1,2"}, []uint32{1, 2}},
		{"flag 2,1", "", []string{"-sflow-type-filter", "2,1"}, []uint32{2, 1}},
		{"flag given twice", "", []string{"-sflow-type-filter", "2", "-sflow-type-filter", "1"}, []uint32{2, 1}},
		{"flag given three times", "", []string{"-sflow-type-filter", "1", "-sflow-type-filter", "7,8", "-sflow-type-filter", "3"}, []uint32{1, 7, 8, 3}},
		{"file [2]", "[2]", nil, []uint32{2}},
		{"file [5, 1]", "[5, 1]", nil, []uint32{5, 1}},
		{"file [3, 4, 1]", "[3, 4, 1]", nil, []uint32{3, 4, 1}},
		{"file [7] + flag 2", "[7]", []string{"-sflow-type-filter", "2"}, []uint32{7, 2}},
		{"file [2] + flag 1", "[2]", []string{"-sflow-type-filter", "1"}, []uint32{2, 1}},
		{"flag 4095,2", "", []string{"-sflow-type-filter", "4095,2"}, []uint32{4095, 2}},
		{"flag 1,1,2 (an entry twice, then a new one)", "", []string{"-sflow-type-filter", "1,1,2"}, []uint32{1, 1, 2}},
		{"file [2] + flag 2,1 (the flag repeats the file's entry first)", "[2]", []string{"-sflow-type-filter", "2,1"}, []uint32{2, 2, 1}},
	}
	if !run.Thorough() {
		keep := map[string]bool{"no filter": true, "flag 2,1": true, "flag given twice": true, "file [2]": true, "file [3, 4, 1]": true, "file [2] + flag 1": true, "flag 4095,2": true, "flag 1,1,2 (an entry twice, then a new one)": true, "file [2] + flag 2,1 (the flag repeats the file's entry first)": true}
		var q []fcfg
		for _, c := range cfgs {
			if keep[c.name] {
				q = append(q, c)
			}
		}
		cfgs = q
	}
	var totalSent, totalLines int64
	for ci, cf := range cfgs {
		g := mon.NewRNG(run.Seed, "e2e-filter", ci)
		pdir := filepath.Join(dir, fmt.Sprintf("filter%d", ci))
		os.MkdirAll(pdir, 0o755)
		sink, err := newSinkT()
		if err != nil {
			run.HarnessError(err.Error())
			continue
		}
		port, statsPort := reservedPort(), reservedPort()
		conf := map[string]string{
			"mq-name": "rawSocket", "mq-config-file": "mq.conf", "ipfix-rpc-enabled": "false", "dynamic-workers": "false",
			"stats-format": "rest", "stats-http-port": strconv.Itoa(statsPort), "stats-http-addr": "127.0.0.1",
			"pid-file": filepath.Join(pdir, "vflow.pid"), "ipfix-enabled": "false", "netflow5-enabled": "false", "netflow9-enabled": "false",
			"sflow-port": strconv.Itoa(port), "sflow-workers": "4",
		}
		if cf.file != "" {
			conf["sflow-type-filter"] = cf.file
		}
		writeConf(pdir, conf, sink.port)
		col, err := startCollector(bin, pdir, nil, cf.flags, nil)
		if err != nil {
			run.HarnessError(err.Error())
			sink.close()
			continue
		}
		desc := fmt.Sprintf("sflow-type-filter %s", cf.name)
		ready := false
		for d := time.Now().Add(15 * time.Second); time.Now().Before(d) && col.alive(); time.Sleep(5 * time.Millisecond) {
			udp, tcp := sockets(col.pid())
			if udp[port] && tcp[statsPort] != "" {
				ready = true
				break
			}
		}
		if !ready {
			run.Inconclusive(desc + ": collector not ready: " + clip(col.stderr(), 300))
			col.kill()
			sink.close()
			continue
		}
		snd := newSender()
		src := net.IPv4(127, 77, byte(ci), 1)
		type sent struct {
			id     int
			d      []byte
			expect []byte
		}
		var all []sent
		n := run.Pick(300, 2000)
		for k := 0; k < n; k++ {
			d := wire.GenSFDatagram(g, false)
			d.Seq = uint32(k + 1)
			d.Agent = src.To4()
			if k%3 == 1 {
				// an IPv6 agent address (a field of the datagram, independent of the UDP source)
				d.Agent = append([]byte{0x20, 0x01, 0x0d, 0xb8, 0, 0, 0, 0, 0, 0, 0, byte(ci)}, src.To4()...)
			}
			if k%2 == 0 {
				d.SubAgent = 0
			}
			if len(d.Samples) < 2 {
				d.Samples = append(d.Samples, wire.GenSFSample(g, "counter", false), wire.GenSFSample(g, "flow", false))
			}
			b := d.Encode()
			if len(b) > 1400 {
				continue
			}
			exp, _, _ := pipe.Standalone("sflow", mapped(src), b, nil, cf.expect)
			all = append(all, sent{k + 1, b, exp})
			snd.send(src, port, b)
			if k%100 == 99 {
				for w := 0; w < 300; w++ {
					fl, err := getFlow("127.0.0.1", statsPort)
					if err == nil && int(fl["SFlow"]["UDPCount"]) >= len(all) {
						break
					}
					time.Sleep(2 * time.Millisecond)
				}
			}
		}
		wantLines := 0
		for _, s := range all {
			if s.expect != nil {
				wantLines++
			}
		}
		sink.waitLines(func(ls []string) bool { return len(ls) >= wantLines }, 5*time.Second)
		time.Sleep(100 * time.Millisecond)
		lines := sink.snapshot()
		drops := kernelDrops(map[int]bool{port: true})
		totalSent += int64(len(all))
		totalLines += int64(len(lines))
		run.Eval(1)
		run.Distinct(desc)
		byKey := map[string]sent{}
		for _, s := range all {
			if s.expect != nil {
				byKey[pipe.PayloadKey("sflow", s.expect)] = s
			}
		}
		seen := map[string]bool{}
		wit := map[string]interface{}{"configuration": cf.name, "file_value": cf.file, "flags": cf.flags, "filter_expected": cf.expect}
		for _, l := range lines {
			b := pipe.MaskColTime([]byte(l))
			k := pipe.PayloadKey("sflow", b)
			s, ok := byKey[k]
			if !ok {
				wit["published"] = clip(l, 600)
				run.Violation("e2e-filter:published-although-everything-filtered", fmt.Sprintf("%s: a message with identity %s reached the sink, but every sample of that datagram is of a listed type (or it was never sent)", desc, k), wit)
				continue
			}
			seen[k] = true
			if !bytes.Equal(b, s.expect) {
				wit["published"], wit["expected"], wit["datagram"] = clip(string(b), 800), clip(string(s.expect), 800), mon.Hex(s.d)
				run.Violation("e2e-filter:payload-differs", fmt.Sprintf("%s: datagram %d is published differently from decoding it with filter %v", desc, s.id, cf.expect), wit)
			}
		}
		if drops == 0 {
			for k, s := range byKey {
				if !seen[k] {
					wit["datagram"], wit["expected"] = mon.Hex(s.d), clip(string(s.expect), 600)
					run.Violation("e2e-filter:not-published", fmt.Sprintf("%s: datagram %d has samples of unlisted types but nothing was published for it (%d of %d arrived)", desc, s.id, len(seen), len(byKey)), wit)
					break
				}
			}
		}
		if ci == 1 && len(lines) > 0 {
			run.Sample(map[string]interface{}{"configuration": cf.name, "datagrams": len(all), "lines_at_sink": len(lines), "first_line": clip(lines[0], 300)})
		}
		if ct := crashText(col.stderr()); ct != "" {
			run.Violation("e2e-filter:crash", desc+": "+clip(ct, 400), wit)
		}
		col.cmd.Process.Signal(syscall.SIGTERM)
		col.wait(10 * time.Second)
		col.kill()
		sink.close()
		snd.close()
	}
	run.Set("datagrams_sent", totalSent)
	run.Set("lines_at_sink", totalLines)
	run.SetRule("end-to-end tier: the real binary with the filter given on the command line (single, comma list, both orders, repeated flag), in the configuration file (one entry, unsorted lists) and in both (the flag appends to the file's list); generated sFlow datagrams over UDP; every line at the sink must equal the library decode of its datagram with exactly that list, datagrams whose samples are all listed must not be published, all others must be. distinct = filter configuration")
	run.Assume("the filter list is not reachable through VFLOW_SFLOW_TYPE_FILTER (getEnv handles string, integer and boolean kinds only)")
	run.Finish()
}

var _ = strings.Contains
