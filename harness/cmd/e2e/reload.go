package main

import (
	"bytes"
	"fmt"
	"net"
	"os"
	"path/filepath"
	"strconv"
	"syscall"
	"time"

	"github.com/EdgeCast/vflow/ipfix"
	netflow9 "github.com/EdgeCast/vflow/netflow/v9"

	"verif/harness/mon"
	"verif/harness/wire"
)

// reloadMain (C10 and C04, end-to-end tier; for C04 it is "the latest template announced by that exporter" across
// the one moment in which the cache has two writers, the start-up load and the exporters): the cache a collector starts from is loaded from a file while, at a
// busy site, exporters are already sending - and some of them re-announce a template with a new
// definition in that very moment. Whatever the order in which the start-up load and those announcements
// are carried out internally, the announcement is the later event: once both are done, data of such an
// exporter must be decoded with the definition it announced, not with the one the file remembered.
//
// The tier builds cache files of 20 000 templates per protocol with the library (exporters 127.x.y.z in
// the 16-byte form a dual-stack socket reports), starts the real binary on them, sends the redefinitions
// of 30 keys the moment the sockets are bound, waits until a template that only the file knows decodes
// (the load has finished), and then sends data encoded under the NEW definitions.
func reloadMain(args mon.Args) {
	run := mon.NewRun(args.Prop, "e2e/reload", "exploration")
	var err error
	snapE, err = wire.LoadSnapshot(mon.Root())
	if err != nil {
		run.HarnessError(err.Error())
		run.Finish()
	}
	bin, err := buildBinary(false)
	if err != nil {
		run.HarnessError(err.Error())
		run.Finish()
	}
	dir := os.Getenv("VERIF_RUN")
	rounds := run.Pick(2, 8)
	var redefs, stale int64
	for ri := 0; ri < rounds; ri++ {
		g := mon.NewRNG(run.Seed, "e2e-reload", ri)
		pdir := filepath.Join(dir, fmt.Sprintf("reload%d", ri))
		os.MkdirAll(pdir, 0o755)
		nTpl := []int{20000, 6000, 40000}[ri%3]
		o := wire.GenOpts{Elems: snapE, Reduced: true, MaxFields: 10, MaxStrLen: 8, OnlyPEN0: true}
		type key struct {
			ip net.IP
			id uint16
		}
		type side struct {
			keys []key
			tpl  map[int]*wire.Template
			file string
		}
		sides := map[string]*side{}
		for _, proto := range []string{"ipfix", "nf9"} {
			sd := &side{tpl: map[int]*wire.Template{}, file: filepath.Join(pdir, proto+".templates")}
			lc := &libC{ic: ipfix.GetCache(""), nc: netflow9.GetCache("")}
			oo := o
			oo.Varlen = proto == "ipfix"
			for i := 0; i < nTpl; i++ {
				k := key{net.IPv4(127, byte(30+ri), byte(i/200%250), byte(1+i%200)).To4(), uint16(256 + i/50000 + i%7)}
				t := wire.GenTemplate(g, k.id, oo)
				t.Fields, t.Scope, t.Options = t.All(), nil, false
				b, _ := wire.EncodeFlow(proto, []uint32{1, 2, 3, 4}, []wire.Set{{Kind: wire.SetTemplate, Templates: []*wire.Template{t}}})
				libDecodeAny(proto, mapped(k.ip), b, lc)
				if i < 40 { // the first 40 keys are used below: 30 are redefined, 10 stay as the file has them
					sd.keys = append(sd.keys, k)
					sd.tpl[i] = t
				}
			}
			if proto == "ipfix" {
				err = lc.ic.Dump(sd.file)
			} else {
				err = lc.nc.Dump(sd.file)
			}
			if err != nil {
				run.HarnessError("cannot write the cache file: " + err.Error())
				run.Finish()
			}
			sides[proto] = sd
		}
		sink, err := newSinkT()
		if err != nil {
			run.HarnessError(err.Error())
			continue
		}
		ports := map[string]int{"ipfix": reservedPort(), "nf9": reservedPort()}
		statsPort := reservedPort()
		conf := map[string]string{
			"mq-name": "rawSocket", "mq-config-file": "mq.conf", "ipfix-rpc-enabled": "false", "dynamic-workers": "false",
			"stats-format": "rest", "stats-http-port": strconv.Itoa(statsPort), "stats-http-addr": "127.0.0.1",
			"pid-file": filepath.Join(pdir, "vflow.pid"), "ipfix-tpl-cache-file": sides["ipfix"].file, "netflow9-tpl-cache-file": sides["nf9"].file,
			"sflow-enabled": "false", "netflow5-enabled": "false",
			"ipfix-port": strconv.Itoa(ports["ipfix"]), "netflow9-port": strconv.Itoa(ports["nf9"]), "ipfix-workers": "8", "netflow9-workers": "8",
		}
		writeConf(pdir, conf, sink.port)
		desc := fmt.Sprintf("collector started on cache files of %d templates per protocol", nTpl)
		col, err := startCollector(bin, pdir, nil, nil, nil)
		if err != nil {
			run.HarnessError(err.Error())
			sink.close()
			continue
		}
		snd := newSender()
		wit := func(detail string) blastWitness {
			return blastWitness{Seed: run.Seed, Index: ri, Desc: desc, Detail: detail, Stderr: clip(col.stderr(), 2000)}
		}
		// the redefinitions go out the moment each socket exists
		newTpl := map[string]map[int]*wire.Template{"ipfix": {}, "nf9": {}}
		sentRedef := map[string]bool{}
		for d := time.Now().Add(20 * time.Second); time.Now().Before(d) && col.alive() && len(sentRedef) < 2; time.Sleep(500 * time.Microsecond) {
			udp, _ := sockets(col.pid())
			for _, proto := range []string{"ipfix", "nf9"} {
				if sentRedef[proto] || !udp[ports[proto]] {
					continue
				}
				sentRedef[proto] = true
				sd := sides[proto]
				oo := o
				oo.Varlen = proto == "ipfix"
				for i := 0; i < 30; i++ {
					var t *wire.Template
					for {
						t = wire.GenTemplate(g, sd.keys[i].id, oo)
						t.Fields, t.Scope, t.Options = t.All(), nil, false
						if t.MinRecLen() != sd.tpl[i].MinRecLen() || len(t.Fields) != len(sd.tpl[i].Fields) {
							break // a definition that cannot be mistaken for the old one
						}
					}
					newTpl[proto][i] = t
					b, _ := wire.EncodeFlow(proto, []uint32{1, 2, 3, 4}, []wire.Set{{Kind: wire.SetTemplate, Templates: []*wire.Template{t}}})
					snd.send(sd.keys[i].ip, ports[proto], b)
					redefs++
				}
			}
		}
		if len(sentRedef) < 2 || !col.alive() {
			run.Inconclusive(desc + ": the collector did not come up: " + clip(col.stderr(), 300))
			col.kill()
			sink.close()
			snd.close()
			continue
		}
		// the load has finished once a template only the file knows (keys 30..39) decodes
		seq := uint32(1000)
		dataFor := func(proto string, t *wire.Template) ([]byte, uint32) {
			seq++
			s := wire.GenDataSet(g, t, 1, o, 0)
			s.Pad = 0
			if proto == "nf9" {
				for wire.SetLen(&s)%4 != 0 {
					need := (4 - wire.SetLen(&s)%4) % 4
					if need < t.MinRecLen() {
						s.Pad = need
						break
					}
					s.Records = append(s.Records, wire.GenRecord(g, t, o))
				}
			}
			hdr := []uint32{7, seq, 9, 0}
			if proto == "nf9" {
				hdr = []uint32{7, 8, seq, 9}
			}
			b, _ := wire.EncodeFlow(proto, hdr, []wire.Set{s})
			return b, seq
		}
		loaded := true
		for _, proto := range []string{"ipfix", "nf9"} {
			sd := sides[proto]
			ok := false
			for try := 0; try < 300 && !ok && col.alive(); try++ {
				b, sq := dataFor(proto, sd.tpl[35])
				snd.send(sd.keys[35].ip, ports[proto], b)
				ok = sink.waitLines(func(ls []string) bool {
					for _, l := range ls {
						if m := seqRe2[proto].FindStringSubmatch(l); m != nil && m[1] == fmt.Sprint(sq) {
							return true
						}
					}
					return false
				}, 100*time.Millisecond)
			}
			if !ok {
				loaded = false
			}
		}
		run.Eval(1)
		run.Distinct(desc)
		if !loaded {
			if ct := crashText(col.stderr()); ct != "" || !col.alive() {
				run.Violation("reload:collector-died", desc+": the collector died: "+clip(ct, 400), wit("died"))
			} else {
				run.Violation("reload:file-templates-never-usable", desc+": 30 s after the start data of an exporter whose template is in the cache file (and was never re-announced) is still not published", wit("file template unusable"))
			}
			col.kill()
			sink.close()
			snd.close()
			continue
		}
		// now data under the NEW definitions of the 30 redefined keys
		time.Sleep(50 * time.Millisecond)
		type probe struct {
			proto string
			i     int
			seq   uint32
			want  []byte
		}
		var probes []probe
		for _, proto := range []string{"ipfix", "nf9"} {
			sd := sides[proto]
			lc := &libC{ic: ipfix.GetCache(""), nc: netflow9.GetCache("")}
			for i := 0; i < 30; i++ {
				t := newTpl[proto][i]
				ann, _ := wire.EncodeFlow(proto, []uint32{1, 2, 3, 4}, []wire.Set{{Kind: wire.SetTemplate, Templates: []*wire.Template{t}}})
				libDecodeAny(proto, mapped(sd.keys[i].ip), ann, lc)
				b, sq := dataFor(proto, t)
				probes = append(probes, probe{proto, i, sq, libDecode(proto, mapped(sd.keys[i].ip), b, lc)})
				snd.send(sd.keys[i].ip, ports[proto], b)
			}
		}
		sink.waitLines(func(ls []string) bool { return false }, 600*time.Millisecond)
		lines := sink.snapshot()
		bySeq := map[string]string{}
		for _, l := range lines {
			for _, proto := range []string{"ipfix", "nf9"} {
				if m := seqRe2[proto].FindStringSubmatch(l); m != nil {
					bySeq[proto+m[1]] = l
				}
			}
		}
		for _, p := range probes {
			got, ok := bySeq[p.proto+fmt.Sprint(p.seq)]
			if p.want == nil {
				continue
			}
			if !ok || !bytes.Equal([]byte(got), p.want) {
				stale++
				w := wit("stale definition after the start-up load")
				w.Got, w.Want = clip(got, 600), clip(string(p.want), 600)
				sd := sides[p.proto]
				run.Violation("reload:"+p.proto+":announcement-during-start-undone", fmt.Sprintf("%s: exporter %v re-announced template %d with a new definition while the collector was starting; after the start data encoded under the new definition is %s - the definition from the cache file is in force again", desc, sd.keys[p.i].ip, sd.keys[p.i].id, map[bool]string{true: "published differently from its stand-alone decode", false: "not published"}[ok]), w)
				break
			}
		}
		col.cmd.Process.Signal(syscall.SIGTERM)
		col.wait(15 * time.Second)
		col.kill()
		sink.close()
		snd.close()
		os.Remove(sides["ipfix"].file)
		os.Remove(sides["nf9"].file)
	}
	run.Set("redefinitions_sent_while_the_collector_was_starting", redefs)
	run.Set("collector_starts_on_large_cache_files", rounds)
	run.SetRule("end-to-end tier of " + args.Prop + ": the real binary is started on library-built cache files of 6 000 / 20 000 / 40 000 templates per protocol; the moment its UDP sockets exist 30 exporters per protocol re-announce their template with a different definition; once a file-only template decodes (the start-up load is complete) data encoded under the new definitions is sent and every message at the sink must equal its stand-alone decode under the NEW definition. distinct = cache size")
	run.Assume("whether the load happens before or concurrently with the first datagrams is the collector's business; only the outcome after both have completed is judged")
	run.Finish()
}

// libDecodeAny feeds a datagram to the library decoder for its effect on the cache.
func libDecodeAny(proto string, addr16, d []byte, c *libC) {
	defer func() { recover() }()
	ip := net.IP(append([]byte{}, addr16...))
	if proto == "ipfix" {
		ipfix.NewDecoder(ip, d).Decode(c.ic)
		return
	}
	netflow9.NewDecoder(ip, d).Decode(c.nc)
}
