package main

import (
	"bufio"
	"bytes"
	"encoding/json"
	"fmt"
	"io"
	"net"
	"net/http"
	"os"
	"os/exec"
	"path/filepath"
	"sort"
	"strconv"
	"strings"
	"sync"
	"sync/atomic"
	"syscall"
	"time"
)

// sinkT is the TCP sink the rawSocket producers connect to (one connection per protocol).
type sinkT struct {
	ln    net.Listener
	port  int
	mu    sync.Mutex
	lines []string
	conns int
	stall bool // the sink has stopped reading (connections stay open): back-pressure on the producer
}

func (s *sinkT) setStall(v bool) { s.mu.Lock(); s.stall = v; s.mu.Unlock() }
func (s *sinkT) stalled() bool   { s.mu.Lock(); defer s.mu.Unlock(); return s.stall }

func newSinkT() (*sinkT, error) {
	ln, err := net.Listen("tcp", "127.0.0.1:0")
	if err != nil {
		return nil, err
	}
	s := &sinkT{ln: ln, port: ln.Addr().(*net.TCPAddr).Port}
	go func() {
		for {
			c, err := ln.Accept()
			if err != nil {
				return
			}
			s.mu.Lock()
			s.conns++
			s.mu.Unlock()
			go func() {
				r := bufio.NewReaderSize(c, 1<<20)
				for {
					for s.stalled() {
						time.Sleep(5 * time.Millisecond)
					}
					l, err := r.ReadString('\n')
					if len(l) > 0 && strings.HasSuffix(l, "\n") {
						s.mu.Lock()
						s.lines = append(s.lines, strings.TrimSuffix(l, "\n"))
						s.mu.Unlock()
					}
					if err != nil {
						return
					}
				}
			}()
		}
	}()
	return s, nil
}

func (s *sinkT) snapshot() []string {
	s.mu.Lock()
	defer s.mu.Unlock()
	return append([]string{}, s.lines...)
}

func (s *sinkT) count() int { s.mu.Lock(); defer s.mu.Unlock(); return len(s.lines) }

func (s *sinkT) close() { s.ln.Close() }

// waitLines waits until pred holds over the lines (polling; the caller decides what a timeout means).
func (s *sinkT) waitLines(pred func([]string) bool, d time.Duration) bool {
	deadline := time.Now().Add(d)
	for {
		if pred(s.snapshot()) {
			return true
		}
		if time.Now().After(deadline) {
			return false
		}
		time.Sleep(5 * time.Millisecond)
	}
}

var portCursor int32 = 0

// reservedPort hands out ports below the kernel's ephemeral range (so that no sender socket can take
// the collector's port while it is down between two cycles), probed free for UDP and TCP.
func reservedPort() int {
	for try := 0; try < 4000; try++ {
		p := 20000 + int(atomic.AddInt32(&portCursor, 1))%9000 + (os.Getpid()%7)*13
		u, err := net.ListenUDP("udp", &net.UDPAddr{Port: p})
		if err != nil {
			continue
		}
		t, err2 := net.Listen("tcp", fmt.Sprintf(":%d", p))
		u.Close()
		if err2 != nil {
			continue
		}
		t.Close()
		return p
	}
	return freeUDPPort()
}

func freeUDPPort() int {
	c, err := net.ListenUDP("udp", &net.UDPAddr{})
	if err != nil {
		return 0
	}
	defer c.Close()
	return c.LocalAddr().(*net.UDPAddr).Port
}

func freeTCPPort() int {
	l, err := net.Listen("tcp", ":0")
	if err != nil {
		return 0
	}
	defer l.Close()
	return l.Addr().(*net.TCPAddr).Port
}

type collector struct {
	dir     string
	cmd     *exec.Cmd
	errPath string
	started time.Time
	done    chan error
	exited  bool
	exitErr error
	exitAt  time.Time
}

// writeConf writes vflow.conf and mq.conf into dir.
func writeConf(dir string, conf map[string]string, sinkPort int) {
	os.MkdirAll(dir, 0o755)
	var keys []string
	for k := range conf {
		keys = append(keys, k)
	}
	sort.Strings(keys)
	var sb strings.Builder
	for _, k := range keys {
		if conf[k] == "" {
			fmt.Fprintf(&sb, "%s: \"\"\n", k) // an explicit empty string, not a YAML null
			continue
		}
		fmt.Fprintf(&sb, "%s: %s\n", k, conf[k])
	}
	os.WriteFile(filepath.Join(dir, "vflow.conf"), []byte(sb.String()), 0o644)
	os.WriteFile(filepath.Join(dir, "mq.conf"), []byte(fmt.Sprintf("url: 127.0.0.1:%d\nprotocol: tcp\nretry-max: 2\n", sinkPort)), 0o644)
}

// startCollector launches the real vflow binary.
func startCollector(bin, dir string, env []string, flags []string, wrap []string) (*collector, error) {
	c := &collector{dir: dir, errPath: filepath.Join(dir, fmt.Sprintf("stderr.%d", time.Now().UnixNano()))}
	argv := append([]string{bin, "-config", filepath.Join(dir, "vflow.conf")}, flags...)
	for _, f := range flags {
		if f == "-config" { // the caller placed the option itself
			argv = append([]string{bin}, flags...)
		}
	}
	if len(wrap) > 0 {
		argv = append(append([]string{}, wrap...), argv...)
	}
	c.cmd = exec.Command(argv[0], argv[1:]...)
	// a clean environment: no VFLOW_* leaks from the caller
	for _, e := range os.Environ() {
		if !strings.HasPrefix(e, "VFLOW_") && !strings.HasPrefix(e, "GORACE=") {
			c.cmd.Env = append(c.cmd.Env, e)
		}
	}
	c.cmd.Env = append(c.cmd.Env, env...)
	f, err := os.Create(c.errPath)
	if err != nil {
		return nil, err
	}
	c.cmd.Stderr, c.cmd.Stdout = f, f
	c.cmd.SysProcAttr = &syscall.SysProcAttr{Pdeathsig: syscall.SIGKILL, Setpgid: true}
	c.started = time.Now()
	if err := c.cmd.Start(); err != nil {
		return nil, err
	}
	f.Close()
	c.done = make(chan error, 1)
	go func() {
		err := c.cmd.Wait()
		c.exitAt = time.Now()
		c.done <- err
	}()
	return c, nil
}

func (c *collector) pid() int { return c.cmd.Process.Pid }

// vflowPid returns the pid of the vflow process itself (the child of strace when wrapped).
func (c *collector) vflowPid() int {
	pid := c.pid()
	b, err := os.ReadFile(fmt.Sprintf("/proc/%d/comm", pid))
	if err == nil && strings.TrimSpace(string(b)) == "strace" {
		kids, _ := os.ReadFile(fmt.Sprintf("/proc/%d/task/%d/children", pid, pid))
		for _, k := range strings.Fields(string(kids)) {
			if v, err := strconv.Atoi(k); err == nil {
				return v
			}
		}
	}
	return pid
}

func (c *collector) stderr() string {
	b, _ := os.ReadFile(c.errPath)
	return string(b)
}

// wait waits for the process to exit; ok=false on timeout.
func (c *collector) wait(d time.Duration) (err error, ok bool) {
	if c.exited {
		return c.exitErr, true
	}
	select {
	case err = <-c.done:
		c.exited, c.exitErr = true, err
		return err, true
	case <-time.After(d):
		return nil, false
	}
}

func (c *collector) kill() {
	if c.exited {
		return
	}
	syscall.Kill(-c.cmd.Process.Pid, syscall.SIGKILL)
	c.wait(5 * time.Second)
}

func (c *collector) alive() bool {
	if c.exited {
		return false
	}
	select {
	case err := <-c.done:
		c.exited, c.exitErr = true, err
		return false
	default:
		return true
	}
}

// sockets lists the UDP ports bound and the TCP ports listened on by the process (from /proc).
func sockets(pid int) (udp map[int]bool, tcp map[int]string) {
	udp, tcp = map[int]bool{}, map[int]string{}
	inodes := map[string]bool{}
	fds, _ := os.ReadDir(fmt.Sprintf("/proc/%d/fd", pid))
	for _, fd := range fds {
		l, err := os.Readlink(fmt.Sprintf("/proc/%d/fd/%s", pid, fd.Name()))
		if err == nil && strings.HasPrefix(l, "socket:[") {
			inodes[strings.TrimSuffix(strings.TrimPrefix(l, "socket:["), "]")] = true
		}
	}
	parse := func(file string, isTCP bool) {
		b, err := os.ReadFile(file)
		if err != nil {
			return
		}
		for i, l := range strings.Split(string(b), "\n") {
			f := strings.Fields(l)
			if i == 0 || len(f) < 10 || !inodes[f[9]] {
				continue
			}
			la := strings.Split(f[1], ":")
			port, _ := strconv.ParseInt(la[len(la)-1], 16, 32)
			if isTCP {
				if f[3] == "0A" {
					tcp[int(port)] = la[0]
				}
			} else {
				udp[int(port)] = true
			}
		}
	}
	parse("/proc/net/udp", false)
	parse("/proc/net/udp6", false)
	parse("/proc/net/tcp", true)
	parse("/proc/net/tcp6", true)
	return
}

type flowStats map[string]map[string]float64

var httpc = &http.Client{Timeout: 2 * time.Second}

func getFlow(addr string, port int) (flowStats, error) {
	r, err := httpc.Get(fmt.Sprintf("http://%s:%d/flow", addr, port))
	if err != nil {
		return nil, err
	}
	defer r.Body.Close()
	if r.StatusCode != 200 {
		return nil, fmt.Errorf("status %d", r.StatusCode)
	}
	b, _ := io.ReadAll(r.Body)
	var raw map[string]json.RawMessage
	if err := json.Unmarshal(b, &raw); err != nil {
		return nil, err
	}
	out := flowStats{}
	for k, v := range raw {
		var m map[string]float64
		if json.Unmarshal(v, &m) == nil && m != nil {
			out[k] = m
		}
	}
	return out, nil
}

func getMetrics(addr string, port int) (map[string]float64, error) {
	r, err := httpc.Get(fmt.Sprintf("http://%s:%d/metrics", addr, port))
	if err != nil {
		return nil, err
	}
	defer r.Body.Close()
	if r.StatusCode != 200 {
		return nil, fmt.Errorf("status %d", r.StatusCode)
	}
	out := map[string]float64{}
	sc := bufio.NewScanner(r.Body)
	for sc.Scan() {
		l := sc.Text()
		if strings.HasPrefix(l, "#") {
			continue
		}
		f := strings.Fields(l)
		if len(f) == 2 {
			v, _ := strconv.ParseFloat(f[1], 64)
			out[f[0]] = v
		}
	}
	return out, nil
}

// sender emulates exporters: UDP sockets bound to 127.x.y.z source addresses.
type sender struct {
	mu    sync.Mutex
	conns map[string]*net.UDPConn
}

func newSender() *sender { return &sender{conns: map[string]*net.UDPConn{}} }

func (s *sender) send(src net.IP, dstPort int, b []byte) error {
	k := fmt.Sprintf("%s>%d", src, dstPort)
	s.mu.Lock()
	c := s.conns[k]
	s.mu.Unlock()
	if c == nil {
		var err error
		c, err = net.DialUDP("udp4", &net.UDPAddr{IP: src}, &net.UDPAddr{IP: net.IPv4(127, 0, 0, 1), Port: dstPort})
		if err != nil {
			return err
		}
		s.mu.Lock()
		s.conns[k] = c
		s.mu.Unlock()
	}
	_, err := c.Write(b)
	return err
}

func (s *sender) close() {
	s.mu.Lock()
	for _, c := range s.conns {
		c.Close()
	}
	s.mu.Unlock()
}

func buildBinary(race bool) (string, error) {
	out := filepath.Join(os.Getenv("VERIF_BUILD"), "vflow")
	if race {
		out += ".race"
	}
	if _, err := os.Stat(out); err != nil {
		return "", fmt.Errorf("collector binary %s not built", out)
	}
	return out, nil
}

func clip(s string, n int) string {
	if len(s) > n {
		return s[:n] + "…"
	}
	return s
}

func crashText(stderr string) string {
	for _, k := range []string{"panic:", "fatal error:", "SIGSEGV"} {
		if i := strings.Index(stderr, k); i >= 0 {
			return clip(stderr[i:], 1500)
		}
	}
	return ""
}

var _ = bytes.Equal
