// e2e monitors the real vflow binary as a process: C17 (configuration precedence, read back
// behaviourally) and C15 (SIGTERM: clean exit, cache files, restart decodes without templates).
package main

import (
	"fmt"
	"os"

	"verif/harness/mon"
)

func main() {
	args := mon.ParseArgs()
	if args.Rest["mode"] == "idleburst" {
		idleBurstMain(args) // C08, C12
	}
	if args.Rest["mode"] == "names" {
		cacheNamesMain(args) // C10, C11
	}
	switch args.Prop {
	case "C17":
		configMain(args)
	case "C15":
		termMain(args)
	case "C18":
		filterMain(args)
	case "C16":
		mirrorE2EMain(args)
	case "C10", "C04":
		reloadMain(args)
	case "C01", "C12", "C13":
		blastMain(args, args.Prop)
	default:
		fmt.Println("HARNESS-ERROR e2e: unknown property", args.Prop)
		os.Exit(mon.ExitHarness)
	}
}
