package main

import (
	"bytes"
	"fmt"
	"net"
	"os"
	"path/filepath"
	"strconv"
	"strings"
	"sync"
	"syscall"
	"time"

	"verif/harness/mon"
	"verif/harness/pipe"
	"verif/harness/wire"
)

// udpSizePhase covers the four <protocol>-udp-size keys of C17. Their effective value has an external
// observable after all: a datagram longer than the value is cut to it by the receive buffer, so what the
// collector publishes for a long datagram is the decode of its first <value> octets. Eight collector
// processes give every key every subset of {environment, file, command line} (Latin square), each source with
// its own value per key (so that a value wired to the wrong key shows as well); ~50 datagrams of 72..1464
// octets per protocol are sent and every line at the sink is compared with the stand-alone decode of the
// datagram cut to the expected effective size.
func udpSizePhase(run *mon.Run, bin, dir string) {
	snap, err := wire.LoadSnapshot(mon.Root())
	if err != nil {
		run.HarnessError(err.Error())
		return
	}
	type pk struct{ conf, pipe, js string }
	protos := []pk{{"ipfix", "ipfix", "IPFIX"}, {"sflow", "sflow", "SFlow"}, {"netflow5", "nf5", "NetflowV5"}, {"netflow9", "nf9", "NetflowV9"}}
	val := func(src string, ki int) int {
		return map[string]int{"env": 400, "file": 700, "flag": 1000, "default": 1500}[src] + map[bool]int{true: 60 * ki, false: 0}[src != "default"]
	}
	var candidates []int
	for ki := range protos {
		for _, s := range []string{"env", "file", "flag"} {
			candidates = append(candidates, val(s, ki))
		}
	}
	candidates = append(candidates, 1500)
	var mu sync.Mutex
	cells := map[string]bool{}
	var probesSent, linesJudged, cutDatagrams int64
	var wg sync.WaitGroup
	for idx := 0; idx < 8; idx++ {
		wg.Add(1)
		go func(idx int) {
			defer wg.Done()
			g := mon.NewRNG(run.Seed, "cfg-udpsize", idx)
			pdir := filepath.Join(dir, fmt.Sprintf("cfgsize%d", idx))
			os.MkdirAll(pdir, 0o755)
			sink, err := newSinkT()
			if err != nil {
				run.HarnessError(err.Error())
				return
			}
			defer sink.close()
			statsPort := reservedPort()
			conf := map[string]string{
				"mq-name": "rawSocket", "mq-config-file": "mq.conf", "ipfix-rpc-enabled": "false", "dynamic-workers": "false",
				"stats-format": "rest", "stats-http-port": strconv.Itoa(statsPort), "stats-http-addr": "127.0.0.1",
				"pid-file": filepath.Join(pdir, "vflow.pid"), "ipfix-tpl-cache-file": filepath.Join(pdir, "i.tpl"), "netflow9-tpl-cache-file": filepath.Join(pdir, "n.tpl"),
			}
			var env, flags []string
			eff := map[string]int{}
			srcs := map[string]string{}
			ports := map[string]int{}
			for ki, p := range protos {
				ports[p.pipe] = reservedPort()
				conf[p.conf+"-port"] = strconv.Itoa(ports[p.pipe])
				conf[p.conf+"-workers"] = "2"
				sub := (idx + 3*ki) % 8
				e, s := 1500, "default"
				var parts []string
				if sub&1 != 0 {
					env = append(env, "VFLOW_"+strings.ToUpper(p.conf)+"_UDP_SIZE="+strconv.Itoa(val("env", ki)))
					e, s = val("env", ki), "env"
					parts = append(parts, "env="+strconv.Itoa(val("env", ki)))
				}
				if sub&2 != 0 {
					conf[p.conf+"-udp-size"] = strconv.Itoa(val("file", ki))
					e, s = val("file", ki), "file"
					parts = append(parts, "file="+strconv.Itoa(val("file", ki)))
				}
				if sub&4 != 0 {
					flags = append(flags, "-"+p.conf+"-max-udp-size", strconv.Itoa(val("flag", ki)))
					e, s = val("flag", ki), "flag"
					parts = append(parts, "flag="+strconv.Itoa(val("flag", ki)))
				}
				eff[p.pipe] = e
				srcs[p.conf+"-udp-size"] = strings.Join(parts, " ") + " → " + s
				mu.Lock()
				cells[p.conf+"-udp-size|"+s+"|"+strconv.Itoa(len(parts))] = true
				mu.Unlock()
			}
			writeConf(pdir, conf, sink.port)
			col, err := startCollector(bin, pdir, env, flags, nil)
			if err != nil {
				run.HarnessError(err.Error())
				return
			}
			defer col.kill()
			desc := fmt.Sprintf("udp-size case %d %v", idx, srcs)
			ready := false
			for d := time.Now().Add(15 * time.Second); time.Now().Before(d) && col.alive(); time.Sleep(5 * time.Millisecond) {
				udp, tcp := sockets(col.pid())
				ok := tcp[statsPort] != ""
				for _, p := range ports {
					ok = ok && udp[p]
				}
				if ok {
					ready = true
					break
				}
			}
			if !ready {
				if strings.Contains(col.stderr(), "flag provided but not defined") {
					run.Violation("config:effective-setting:udp-size-flag", desc+": the collector rejects the documented command-line form: "+clip(col.stderr(), 300), srcs)
					return
				}
				run.Inconclusive(desc + ": collector not ready: " + clip(col.stderr(), 300))
				return
			}
			snd := newSender()
			defer snd.close()
			src := net.IPv4(127, 88, byte(idx), 1)
			e16 := mapped(src)
			type probe struct {
				proto string
				d     []byte
			}
			var probes []probe
			libs := map[int]*pipe.LibCache{}
			for _, c := range candidates {
				libs[c] = pipe.NewLibCache()
			}
			id := 1000 * (idx + 1)
			sent := map[string]int{}
			for _, p := range protos {
				tr := pipe.NewTraffic(g, p.pipe, 1, 1464, snap, true, false, e16)
				// templates of very short records cannot fill a datagram (the generator stops at 40 sets): take
				// a set of templates whose full-size datagram really is long
				for try := 0; try < 40 && p.pipe != "nf5" && len(tr.Data(e16, 1, true)) < 1300; try++ {
					tr = pipe.NewTraffic(g, p.pipe, 1, 1464, snap, true, false, e16)
				}
				if t := tr.TplDgrams[mon.Hex(e16)]; t != nil {
					if len(t) >= 400 {
						run.HarnessError("template datagram longer than the smallest udp size")
						return
					}
					snd.send(src, ports[p.pipe], t)
					sent[p.pipe]++
					for _, c := range candidates {
						pipe.Standalone(p.pipe, e16, t, libs[c], nil)
					}
				}
				for k := 0; k < 56; k++ {
					id++
					var d []byte
					if p.pipe == "nf5" {
						d = tr.DataExact(e16, id, 24+48*(1+k%30))
					} else {
						tr.UDPSize = []int{1464, 1250, 1100, 950, 800, 650, 500}[k%7]
						d = tr.Data(e16, id, true)
					}
					if d == nil || len(d) > 1464 {
						continue
					}
					probes = append(probes, probe{p.pipe, d})
				}
				if p.pipe == "sflow" {
					// sFlow: a datagram of decodable samples only whose length lies in (c-60, c] for every candidate c (a
					// filler sample at the end would be skipped by a seek and hide the cut)
					for _, c := range candidates {
						for try := 0; try < 200; try++ {
							id++
							d := &wire.SFDatagram{Version: 5, Agent: e16[12:16], SubAgent: 0, Seq: uint32(id), UpTime: g.U32()}
							for len(d.Encode()) <= c-60 {
								sm := wire.GenSFSample(g, []string{"counter", "flow"}[g.Intn(2)], false)
								if len(sm.Recs) > 1 {
									sm.Recs = sm.Recs[:1]
								}
								d.Samples = append(d.Samples, sm)
							}
							if b := d.Encode(); len(b) <= c {
								probes = append(probes, probe{p.pipe, b})
								break
							}
						}
					}
				} else if p.pipe != "nf5" {
					// a datagram of exactly c-20 octets for every candidate c: received whole with c, cut with the next smaller one
					for _, c := range candidates {
						for try := 0; try < 12; try++ {
							id++
							if d := tr.DataExact(e16, id, c-20-4*(try%3)); d != nil {
								probes = append(probes, probe{p.pipe, d})
								break
							} else if os.Getenv("VERIF_DEBUG") != "" {
								fmt.Fprintf(os.Stderr, "debug: case %d %s no exact datagram of %d octets (try %d)\n", idx, p.pipe, c-20-4*(try%3), try)
							}
						}
					}
				}
			}
			// expectations per candidate size; the effective one must be told apart from every other candidate
			expect := func(c int, pr probe) []byte {
				d := pr.d
				if len(d) > c {
					d = d[:c]
				}
				b, _, _ := pipe.Standalone(pr.proto, e16, d, libs[c], nil)
				return b
			}
			type exp struct {
				pr   probe
				want []byte
			}
			byKey := map[string]exp{}
			differs := map[string]map[int]bool{}
			for _, pr := range probes {
				want := expect(eff[pr.proto], pr)
				full := expect(1500, pr)
				if full == nil {
					continue
				}
				if len(pr.d) > eff[pr.proto] {
					mu.Lock()
					cutDatagrams++
					mu.Unlock()
				}
				byKey[pr.proto+"|"+pipe.PayloadKey(pr.proto, full)] = exp{pr, want}
				for _, c := range candidates {
					if c != eff[pr.proto] && !bytes.Equal(expect(c, pr), want) {
						if differs[pr.proto] == nil {
							differs[pr.proto] = map[int]bool{}
						}
						differs[pr.proto][c] = true
					}
				}
			}
			for _, p := range protos {
				for _, c := range candidates {
					if c != eff[p.pipe] && !differs[p.pipe][c] {
						run.Inconclusive(fmt.Sprintf("%s: no %s probe tells the sizes %d and %d apart", desc, p.pipe, eff[p.pipe], c))
					}
				}
			}
			for _, pr := range probes {
				snd.send(src, ports[pr.proto], pr.d)
				sent[pr.proto]++
				if sent[pr.proto]%20 == 0 {
					for w := 0; w < 300; w++ {
						fl, err := getFlow("127.0.0.1", statsPort)
						if err == nil && int(fl[map[string]string{"ipfix": "IPFIX", "sflow": "SFlow", "nf5": "NetflowV5", "nf9": "NetflowV9"}[pr.proto]]["UDPCount"]) >= sent[pr.proto] {
							break
						}
						time.Sleep(2 * time.Millisecond)
					}
				}
			}
			wantLines := 0
			for _, e := range byKey {
				if e.want != nil {
					wantLines++
				}
			}
			sink.waitLines(func(ls []string) bool { return len(ls) >= wantLines }, 5*time.Second)
			time.Sleep(150 * time.Millisecond)
			lines := sink.snapshot()
			portSet := map[int]bool{}
			for _, p := range ports {
				portSet[p] = true
			}
			drops := kernelDrops(portSet)
			mu.Lock()
			probesSent += int64(len(probes))
			linesJudged += int64(len(lines))
			mu.Unlock()
			run.Eval(1)
			run.Distinct(desc)
			seen := map[string]bool{}
			keyOf := func(p string) string {
				return map[string]string{"ipfix": "ipfix", "sflow": "sflow", "nf5": "netflow5", "nf9": "netflow9"}[p] + "-udp-size"
			}
			reported := map[string]bool{}
			for _, l := range lines {
				b := []byte(l)
				proto := "?"
				switch {
				case bytes.Contains(b, []byte(`"Header":{"Version":10,`)):
					proto = "ipfix"
				case bytes.Contains(b, []byte(`"Header":{"Version":9,`)):
					proto = "nf9"
				case bytes.Contains(b, []byte(`"Header":{"Version":5,`)):
					proto = "nf5"
				case bytes.HasPrefix(b, []byte(`{"Version":5,`)):
					proto = "sflow"
					b = pipe.MaskColTime(b)
				}
				k := proto + "|" + pipe.PayloadKey(proto, b)
				e, ok := byKey[k]
				if !ok {
					continue
				}
				seen[k] = true
				if !bytes.Equal(b, e.want) && !reported[proto] {
					reported[proto] = true
					// which candidate would explain what was published?
					explained := "no candidate size"
					for _, c := range candidates {
						if bytes.Equal(expect(c, e.pr), b) {
							explained = fmt.Sprintf("a receive buffer of %d octets", c)
							break
						}
					}
					w := map[string]interface{}{"sources": srcs, "env": env, "flags": flags, "datagram_octets": len(e.pr.d), "published": clip(string(b), 500), "expected": clip(string(e.want), 500)}
					run.Violation("config:effective-setting:"+keyOf(proto), fmt.Sprintf("%s: a %d-octet %s datagram is not published as its first %d octets decode (the effective %s per flag ?? file ?? env ?? default); what was published is explained by %s", desc, len(e.pr.d), proto, eff[proto], keyOf(proto), explained), w)
				}
			}
			if drops == 0 {
				for k, e := range byKey {
					if e.want != nil && !seen[k] && !reported[e.pr.proto] {
						reported[e.pr.proto] = true
						w := map[string]interface{}{"sources": srcs, "env": env, "flags": flags, "datagram_octets": len(e.pr.d), "expected": clip(string(e.want), 500)}
						run.Violation("config:effective-setting:"+keyOf(e.pr.proto), fmt.Sprintf("%s: nothing is published for a %d-octet %s datagram whose first %d octets (the effective %s) decode to records", desc, len(e.pr.d), e.pr.proto, eff[e.pr.proto], keyOf(e.pr.proto)), w)
					}
				}
			}
			col.cmd.Process.Signal(syscall.SIGTERM)
			col.wait(10 * time.Second)
		}(idx)
	}
	wg.Wait()
	run.Set("udp_size_key_x_source_cells_covered", len(cells))
	run.Set("udp_size_probe_datagrams_sent", probesSent)
	run.Set("udp_size_probe_datagrams_longer_than_the_effective_size", cutDatagrams)
	run.Set("udp_size_lines_at_the_sink", linesJudged)
}

// cpuLimitedDefaults: "otherwise from the built-in default" must not depend on the host. The collector is started
// with no source naming the four worker counts, on one CPU (taskset -c 0), on two (taskset -c 0,1) and with
// GOMAXPROCS=2 / GOMAXPROCS=1 in the environment; the documented default (200 workers per protocol) must be
// what /flow reports in each.
func cpuLimitedDefaults(run *mon.Run, bin, dir string) {
	type lim struct {
		name string
		wrap []string
		env  []string
	}
	lims := []lim{
		{"one CPU (taskset -c 0)", []string{"taskset", "-c", "0"}, nil},
		{"GOMAXPROCS=2 in the environment", nil, []string{"GOMAXPROCS=2"}},
		{"two CPUs (taskset -c 0,1)", []string{"taskset", "-c", "0,1"}, nil},
		{"GOMAXPROCS=1 in the environment", nil, []string{"GOMAXPROCS=1"}},
	}
	if !run.Thorough() {
		lims = lims[:2]
	}
	var wg sync.WaitGroup
	for li, l := range lims {
		wg.Add(1)
		go func(li int, l lim) {
			defer wg.Done()
			pdir := filepath.Join(dir, fmt.Sprintf("cfgcpu%d", li))
			os.MkdirAll(pdir, 0o755)
			sink, err := newSinkT()
			if err != nil {
				run.HarnessError(err.Error())
				return
			}
			defer sink.close()
			statsPort := reservedPort()
			conf := map[string]string{
				"mq-name": "rawSocket", "mq-config-file": "mq.conf", "ipfix-rpc-enabled": "false",
				"stats-format": "rest", "stats-http-port": strconv.Itoa(statsPort), "stats-http-addr": "127.0.0.1",
				"pid-file": filepath.Join(pdir, "vflow.pid"), "ipfix-tpl-cache-file": filepath.Join(pdir, "i.tpl"), "netflow9-tpl-cache-file": filepath.Join(pdir, "n.tpl"),
			}
			for _, p := range []string{"ipfix", "sflow", "netflow5", "netflow9"} {
				conf[p+"-port"] = strconv.Itoa(reservedPort())
			}
			writeConf(pdir, conf, sink.port)
			desc := "no source names the worker counts; host limit: " + l.name
			col, err := startCollector(bin, pdir, l.env, nil, l.wrap)
			if err != nil {
				run.Inconclusive(desc + ": cannot start: " + err.Error())
				return
			}
			defer col.kill()
			var fl flowStats
			for d := time.Now().Add(15 * time.Second); time.Now().Before(d) && col.alive(); time.Sleep(10 * time.Millisecond) {
				if f, err := getFlow("127.0.0.1", statsPort); err == nil && len(f) >= 4 {
					fl = f
					break
				}
			}
			run.Eval(1)
			run.Distinct(desc)
			if fl == nil {
				run.Inconclusive(desc + ": /flow never answered: " + clip(col.stderr(), 300))
				return
			}
			time.Sleep(300 * time.Millisecond)
			if f, err := getFlow("127.0.0.1", statsPort); err == nil {
				fl = f
			}
			for _, p := range []struct{ key, js string }{{"ipfix-workers", "IPFIX"}, {"sflow-workers", "SFlow"}, {"netflow5-workers", "NetflowV5"}, {"netflow9-workers", "NetflowV9"}} {
				if got := int(fl[p.js]["Workers"]); got != 200 {
					run.Violation("config:effective-setting:"+p.key, fmt.Sprintf("%s: the collector reports %d %s, the built-in default is 200 [no env, no file, no flag → default]", desc, got, p.key),
						map[string]interface{}{"host_limit": l.name, "wrap": l.wrap, "env": l.env, "flow": fl})
					break
				}
			}
			run.Add("default_worker_counts_read_back_under_a_cpu_limit", 1)
			col.cmd.Process.Signal(syscall.SIGTERM)
			col.wait(10 * time.Second)
		}(li, l)
	}
	wg.Wait()
}
