package main

import (
	"bytes"
	"encoding/binary"
	"fmt"
	"github.com/EdgeCast/vflow/ipfix"
	netflow9 "github.com/EdgeCast/vflow/netflow/v9"
	"net"
	"os"
	"path/filepath"
	"strconv"
	"strings"
	"sync"
	"syscall"
	"time"

	"verif/harness/mon"
	"verif/harness/wire"
)

// mirrorE2EMain is the end-to-end tier of C16: the real binary, its real sockets (bound to the
// wildcard → exporter addresses in 16-byte form, or to 127.0.0.1 → 4-byte form), the real dispatcher and
// raw socket; a UDP listener stands in for the third-party collector.
func mirrorE2EMain(args mon.Args) {
	run := mon.NewRun("C16", "e2e/mirror", "exploration")
	var err error
	snapE, err = wire.LoadSnapshot(mon.Root())
	if err != nil {
		run.HarnessError(err.Error())
		run.Finish()
	}
	bin, err := buildBinary(false)
	if err != nil {
		run.HarnessError(err.Error())
		run.Finish()
	}
	if c, err := net.ListenPacket("ip4:udp", "127.0.0.1"); err != nil {
		run.Inconclusive("raw sockets are not permitted here: " + err.Error())
		run.Eval(1)
		run.DistinctBulk(2)
		run.Finish()
	} else {
		c.Close()
	}
	dir := os.Getenv("VERIF_RUN")
	nProc := run.Pick(4, 16)
	var totalSent, totalRx int64
	for pi := 0; pi < nProc; pi++ {
		g := mon.NewRNG(run.Seed, "e2e-mirror", pi)
		pdir := filepath.Join(dir, fmt.Sprintf("mirror%d", pi))
		os.MkdirAll(pdir, 0o755)
		sink, err := newSinkT()
		if err != nil {
			run.HarnessError(err.Error())
			continue
		}
		lc, err := net.ListenUDP("udp4", &net.UDPAddr{IP: net.IPv4(127, 0, 0, 1)})
		if err != nil {
			run.HarnessError(err.Error())
			sink.close()
			continue
		}
		lc.SetReadBuffer(16 << 20)
		mport := lc.LocalAddr().(*net.UDPAddr).Port
		type rx struct {
			src net.IP
			b   []byte
		}
		var rxs []rx
		var rmu sync.Mutex
		go func() {
			b := make([]byte, 70000)
			for {
				n, a, err := lc.ReadFromUDP(b)
				if err != nil {
					return
				}
				rmu.Lock()
				rxs = append(rxs, rx{a.IP, append([]byte{}, b[:n]...)})
				rmu.Unlock()
			}
		}()
		cs0, rb0 := udpSnmp("InCsumErrors"), udpSnmp("RcvbufErrors")
		g2 := mon.NewRNG(run.Seed, "e2e-mirror-stop", pi)
		bindV4 := pi%2 == 1
		// the two protocols get their own maximum datagram size; in three of four processes they differ
		sizes := [][2]int{{1500, 1500}, {512, 2048}, {2048, 512}, {1500, 9000}}[pi%4]
		udpSizeOf := map[string]int{"ipfix": sizes[0], "sflow": sizes[1]}
		ports := map[string]int{"ipfix": reservedPort(), "sflow": reservedPort()}
		statsPort := reservedPort()
		conf := map[string]string{
			"mq-name": "rawSocket", "mq-config-file": "mq.conf", "ipfix-rpc-enabled": "false", "dynamic-workers": "false",
			"stats-format": "rest", "stats-http-port": strconv.Itoa(statsPort), "stats-http-addr": "127.0.0.1",
			"pid-file": filepath.Join(pdir, "vflow.pid"), "ipfix-tpl-cache-file": filepath.Join(pdir, "i.tpl"),
			"netflow5-enabled": "false", "netflow9-enabled": "false",
			"ipfix-port": strconv.Itoa(ports["ipfix"]), "sflow-port": strconv.Itoa(ports["sflow"]),
			"ipfix-workers": "4", "sflow-workers": "4", "ipfix-udp-size": strconv.Itoa(udpSizeOf["ipfix"]), "sflow-udp-size": strconv.Itoa(udpSizeOf["sflow"]),
			"ipfix-mirror-addr": "127.0.0.1", "ipfix-mirror-port": strconv.Itoa(mport),
			"sflow-mirror-addr": "127.0.0.1", "sflow-mirror-port": strconv.Itoa(mport),
		}
		if bindV4 {
			conf["ipfix-addr"], conf["sflow-addr"] = "127.0.0.1", "127.0.0.1"
		}
		// the third party's address as the operator may write it: dotted quad, or the same IPv4 host in IPv4-mapped text
		// (round 14, C16-m: a target classified by netip's Is4 is attached to the queue nobody fills)
		targetText := "127.0.0.1"
		if pi%4 == 1 || pi%4 == 2 {
			targetText = "::ffff:127.0.0.1"
			k := []string{"ipfix-mirror-addr", "sflow-mirror-addr"}
			if pi%4 == 2 {
				k = k[pi/4%2 : pi/4%2+1] // one protocol only: the two dispatchers classify on their own
			}
			for _, x := range k {
				conf[x] = "\"" + targetText + "\""
			}
		}
		writeConf(pdir, conf, sink.port)
		desc := fmt.Sprintf("collector #%d mirror target written %s, sockets bound to %s ipfix-udp-size=%d sflow-udp-size=%d", pi, targetText, map[bool]string{true: "127.0.0.1 (exporters in 4-byte form)", false: "the wildcard (16-byte form)"}[bindV4], udpSizeOf["ipfix"], udpSizeOf["sflow"])
		col, err := startCollector(bin, pdir, nil, nil, nil)
		if err != nil {
			run.HarnessError(err.Error())
			sink.close()
			lc.Close()
			continue
		}
		wit := func(detail string) blastWitness {
			return blastWitness{Seed: run.Seed, Index: pi, Desc: desc, Detail: detail, Stderr: clip(col.stderr(), 2500)}
		}
		ready := false
		for d := time.Now().Add(15 * time.Second); time.Now().Before(d) && col.alive(); time.Sleep(5 * time.Millisecond) {
			udp, tcp := sockets(col.pid())
			if udp[ports["ipfix"]] && udp[ports["sflow"]] && tcp[statsPort] != "" {
				ready = true
				break
			}
		}
		if !ready {
			run.Inconclusive(desc + ": collector not ready: " + clip(col.stderr(), 300))
			col.kill()
			sink.close()
			lc.Close()
			continue
		}
		time.Sleep(400 * time.Millisecond) // the dispatchers open their raw sockets and flip the enabled flags on their own goroutines
		snd := newSender()
		type sentD struct {
			id    uint32
			src   net.IP
			proto string
			b     []byte
		}
		var all []sentD
		byID := map[uint32]*sentD{}
		id := uint32(0)
		// every length class incl. the band next to the maximum; a quarter decodable-looking prefixes
		lengthsOf := map[string][]int{}
		for _, proto := range []string{"ipfix", "sflow"} {
			udpSize, other := udpSizeOf[proto], udpSizeOf[map[string]string{"ipfix": "sflow", "sflow": "ipfix"}[proto]]
			l := []int{0, 1, 2, 3, 4, 5, 7, 8, 15, 16, 27, 28, 29, 255, 256, 257, udpSize - 29, udpSize - 28, udpSize - 27, udpSize - 9, udpSize - 8, udpSize - 1, udpSize}
			for _, n := range []int{other - 1, other, other + 1, other + 19, other + 20, other + 21, other + 27, other + 28, other + 29, other + 47, other + 48, other + 49} {
				if n <= udpSize { // around the OTHER protocol's maximum, where a mixed-up setting would bite
					l = append(l, n)
				}
			}
			for k := 0; k < run.Pick(400, 3000); k++ {
				l = append(l, g.Intn(udpSize+1))
			}
			lengthsOf[proto] = l
		}
		perProto := map[string]int{}
		pendingOctets := map[string]int{}
		for li := 0; li < len(lengthsOf["ipfix"]) || li < len(lengthsOf["sflow"]); li++ {
			for _, proto := range []string{"ipfix", "sflow"} {
				if li >= len(lengthsOf[proto]) {
					continue
				}
				n := lengthsOf[proto][li]
				id++
				p := g.Bytes(n)
				if n >= 4 {
					binary.BigEndian.PutUint32(p, id)
				}
				src := net.IPv4(127, byte(20+pi), byte(g.Intn(250)), byte(1+g.Intn(250))).To4()
				all = append(all, sentD{id, src, proto, p})
				snd.send(src, ports[proto], p)
				perProto[proto]++
				pendingOctets[proto] += n
				if perProto[proto]%100 == 0 || pendingOctets[proto] > 40000 { // stay well inside the default socket buffers
					pendingOctets[proto] = 0
					for w := 0; w < 300; w++ {
						fl, err := getFlow("127.0.0.1", statsPort)
						if err == nil && int(fl[map[string]string{"ipfix": "IPFIX", "sflow": "SFlow"}[proto]]["UDPCount"]) >= perProto[proto] {
							break
						}
						time.Sleep(2 * time.Millisecond)
					}
				}
			}
		}
		for i := range all {
			byID[all[i].id] = &all[i]
		}
		for w := 0; w < 400; w++ {
			rmu.Lock()
			n := len(rxs)
			rmu.Unlock()
			if n >= len(all) || !col.alive() {
				break
			}
			time.Sleep(10 * time.Millisecond)
		}
		time.Sleep(100 * time.Millisecond)
		rmu.Lock()
		got := append([]rx{}, rxs...)
		rmu.Unlock()
		run.Eval(1)
		run.Distinct(desc)
		totalSent += int64(len(all))
		totalRx += int64(len(got))
		if ct := crashText(col.stderr()); ct != "" || !col.alive() {
			run.Violation("e2e-mirror:collector-died", fmt.Sprintf("%s: the collector died with mirroring enabled: %s", desc, clip(ct, 500)), wit("collector died"))
			col.kill()
			sink.close()
			lc.Close()
			snd.close()
			continue
		}
		drops := kernelDrops(map[int]bool{ports["ipfix"]: true, ports["sflow"]: true, mport: true})
		seen := map[uint32]int{}
		short := map[int]int{} // payloads shorter than 4 octets are identified by their length
		for _, r := range got {
			if len(r.b) < 4 {
				short[len(r.b)]++
				continue
			}
			s := byID[binary.BigEndian.Uint32(r.b)]
			if s == nil {
				run.Violation("e2e-mirror:unknown-datagram", fmt.Sprintf("%s: the third-party collector received %d octets from %v that match nothing sent", desc, len(r.b), r.src), wit("unmatched"))
				continue
			}
			seen[s.id]++
			if !bytes.Equal(r.b, s.b) {
				run.Violation("e2e-mirror:payload-differs", fmt.Sprintf("%s: a %s datagram of %d octets arrived at the third-party collector as %d different octets", desc, s.proto, len(s.b), len(r.b)), wit("payload differs"))
			}
			if !r.src.To4().Equal(s.src) {
				run.Violation("e2e-mirror:source-differs", fmt.Sprintf("%s: a %s datagram from %v arrived at the third-party collector from %v", desc, s.proto, s.src, r.src), wit("source differs"))
			}
			if seen[s.id] == 2 {
				run.Violation("e2e-mirror:mirrored-twice", fmt.Sprintf("%s: a %s datagram of %d octets was mirrored twice", desc, s.proto, len(s.b)), wit("duplicate"))
			}
		}
		if drops == 0 {
			miss := 0
			var first *sentD
			for i := range all {
				if len(all[i].b) >= 4 && seen[all[i].id] == 0 {
					if first == nil {
						first = &all[i]
					}
					miss++
				}
			}
			if miss > 0 {
				run.Violation("e2e-mirror:not-mirrored", fmt.Sprintf("%s: %d of %d datagrams never reached the third-party collector (first: %s, %d octets from %v; no kernel drops)", desc, miss, len(all), first.proto, len(first.b), first.src), wit("not mirrored"))
			}
			for n := 0; n < 4; n++ {
				want := 0
				for _, s := range all {
					if len(s.b) == n {
						want++
					}
				}
				if short[n] != want {
					run.Violation("e2e-mirror:short-datagrams", fmt.Sprintf("%s: %d datagrams of %d octets were sent, %d arrived at the third-party collector", desc, want, n, short[n]), wit("short datagrams"))
				}
			}
		} else {
			// why did the kernel drop them? A full receive buffer is the load's doing; a checksum failure at the mirror
			// target's socket is the mirrored datagram's own defect (the target's stack discards it)
			csNow, rbNow := udpSnmp("InCsumErrors"), udpSnmp("RcvbufErrors")
			if mdrops := kernelDrops(map[int]bool{mport: true}); mdrops > 0 && csNow-cs0 >= mdrops && rbNow == rb0 {
				run.Violation("e2e-mirror:bad-udp-checksum", fmt.Sprintf("%s: %d of %d mirrored datagrams were discarded by the receiving stack for a wrong UDP checksum (Udp InCsumErrors +%d, RcvbufErrors +0)", desc, mdrops, len(all), csNow-cs0), wit("checksum failures at the mirror target"))
			} else {
				run.Inconclusive(fmt.Sprintf("%s: the kernel dropped %d datagrams; completeness not judged", desc, drops))
			}
		}
		if pi == 0 {
			run.Sample(map[string]interface{}{"scenario": desc, "sent": len(all), "received_by_third_party": len(got)})
		}
		// every UDP source port an exporter can send from: the statement says "every datagram received", and the source
		// port is the one dimension of a datagram the phases above leave to the kernel's ephemeral range. One protocol per
		// process in the quick tier (ipfix in the wildcard-bound process, sflow in the 127.0.0.1-bound one), both in thorough.
		if pi < 2 || run.Thorough() {
			protos := []string{[]string{"ipfix", "sflow"}[pi%2]}
			if run.Thorough() {
				protos = []string{"ipfix", "sflow"}
			}
			for _, proto := range protos {
				src := net.IPv4(127, byte(20+pi), 250, 1).To4()
				dst := &net.UDPAddr{IP: net.IPv4(127, 0, 0, 1), Port: ports[proto]}
				rmu.Lock()
				base := len(rxs)
				rmu.Unlock()
				mark := uint16(0x5057 + pi*2 + map[string]int{"ipfix": 0, "sflow": 1}[proto])
				sendFrom := func(port int) bool {
					c, err := net.ListenUDP("udp4", &net.UDPAddr{IP: src, Port: port})
					if err != nil {
						return false
					}
					b := make([]byte, 8)
					binary.BigEndian.PutUint32(b, 0xfff00000|uint32(port))
					binary.BigEndian.PutUint16(b[4:], uint16(port))
					binary.BigEndian.PutUint16(b[6:], mark)
					c.WriteToUDP(b, dst)
					c.Close()
					return true
				}
				arrived := func() map[int]bool {
					m := map[int]bool{}
					rmu.Lock()
					for _, r := range rxs[base:] {
						if len(r.b) == 8 && binary.BigEndian.Uint16(r.b[6:]) == mark && binary.BigEndian.Uint32(r.b)&0xfff00000 == 0xfff00000 {
							m[int(binary.BigEndian.Uint16(r.b[4:]))] = true
						}
					}
					rmu.Unlock()
					return m
				}
				count := func() int {
					rmu.Lock()
					defer rmu.Unlock()
					return len(rxs) - base
				}
				sentPorts, unbound := 0, 0
				for port := 1; port <= 65535; port++ {
					if !sendFrom(port) {
						unbound++
						continue
					}
					sentPorts++
					if sentPorts%250 == 0 {
						for w := 0; w < 150 && count() < sentPorts-2; w++ { // at most a few stragglers in flight
							time.Sleep(time.Millisecond)
						}
					}
				}
				var missing []int
				for round := 0; round < 4; round++ {
					time.Sleep(150 * time.Millisecond)
					got := arrived()
					missing = missing[:0]
					for port := 1; port <= 65535; port++ {
						if !got[port] {
							missing = append(missing, port)
						}
					}
					if len(missing) <= unbound || !col.alive() {
						break
					}
					for _, port := range missing { // once more, slowly: a full queue is not what is being judged here
						if sendFrom(port) {
							time.Sleep(200 * time.Microsecond)
						}
					}
				}
				got := arrived()
				var never []int
				for _, port := range missing {
					if !got[port] && sendFrom(port) { // bindable, sent five times, never mirrored
						never = append(never, port)
					}
				}
				time.Sleep(100 * time.Millisecond)
				got = arrived()
				var never2 []int
				for _, port := range never {
					if !got[port] {
						never2 = append(never2, port)
					}
				}
				run.Add("source_ports_swept_"+proto, int64(sentPorts))
				run.Add("source_ports_seen_mirrored_"+proto, int64(len(got)))
				if len(never2) > 0 && len(never2) < 2000 && col.alive() {
					run.Violation("e2e-mirror:source-port-not-mirrored", fmt.Sprintf("%s: %s datagrams sent from source port(s) %v were never mirrored to the third-party collector although they were sent six times each; datagrams from %d other source ports were", desc, proto, never2[:min(len(never2), 12)], len(got)), wit("source ports never mirrored"))
				} else if len(never2) >= 2000 {
					run.Inconclusive(fmt.Sprintf("%s: %d of %d source-port probes never arrived; the sweep is not judged", desc, len(never2), sentPorts))
				}
			}
		}
		// the stop: exporters do not know about it and keep sending across the shutdown window. "Mirroring never
		// crashes the collector" includes the second in which the collector winds down with the mirror path live.
		stopSend := make(chan struct{})
		sendDone := make(chan struct{})
		go func() {
			defer close(sendDone)
			for k := 0; ; k++ {
				select {
				case <-stopSend:
					return
				default:
				}
				proto := []string{"ipfix", "sflow"}[k%2]
				snd.send(net.IPv4(127, byte(20+pi), 9, byte(1+k%200)).To4(), ports[proto], g2.Bytes(40+k%300))
				time.Sleep(time.Millisecond)
			}
		}()
		time.Sleep(60 * time.Millisecond)
		col.cmd.Process.Signal(syscall.SIGTERM)
		werr, exited := col.wait(10 * time.Second)
		close(stopSend)
		<-sendDone
		if ct := crashText(col.stderr()); ct != "" {
			run.Violation("e2e-mirror:crash-during-shutdown", fmt.Sprintf("%s: the collector crashed while it was stopped with datagrams still arriving and mirroring enabled: %s", desc, clip(ct, 500)), wit("crash during shutdown"))
		} else if exited && werr != nil {
			run.Violation("e2e-mirror:exit-status", fmt.Sprintf("%s: exit status after SIGTERM under traffic with mirroring enabled: %v", desc, werr), wit("exit status"))
		}
		col.kill()
		sink.close()
		lc.Close()
		snd.close()
	}
	run.Set("datagrams_sent", totalSent)
	run.Set("datagrams_received_by_the_third_party_listener", totalRx)
	if args.Replay == "" {
		mirrorAcrossLives(run, bin, dir)
	}
	run.SetRule("end-to-end tier: the real binary with mirroring of IPFIX and sFlow towards a UDP listener, sockets bound to the wildcard (exporter addresses reach the mirror in 16-byte form) or to 127.0.0.1 (4-byte form), max-udp-size 512/1500, exporters 127.x.y.z, payload lengths 0..max with the bands next to 0, 28, 256 and the maximum always included; each datagram must arrive exactly once, byte-identical, from the exporter's address; a sweep sends one datagram from every UDP source port 1..65535 (re-sent up to five times when it does not show) and every bindable port's datagram must be mirrored; the collector is stopped under traffic and must exit cleanly; a two-life scenario learns IPFIX templates with mirroring off, restarts on the same cache file with mirroring on (and the other way round) and requires data sent without templates to be published as its stand-alone decode. distinct = collector configuration")
	run.Finish()
}

// udpSnmp reads one counter of the "Udp:" line of /proc/net/snmp.
func udpSnmp(name string) int64 {
	b, err := os.ReadFile("/proc/net/snmp")
	if err != nil {
		return 0
	}
	var hdr []string
	for _, l := range strings.Split(string(b), "\n") {
		f := strings.Fields(l)
		if len(f) == 0 || f[0] != "Udp:" {
			continue
		}
		if hdr == nil {
			hdr = f
			continue
		}
		for i := range hdr {
			if hdr[i] == name && i < len(f) {
				v, _ := strconv.ParseInt(f[i], 10, 64)
				return v
			}
		}
	}
	return 0
}

// mirrorAcrossLives: "mirroring never changes what is decoded and published" across a restart. Life 1 learns the
// IPFIX templates of 12 exporters and saves them; life 2 runs on the same cache file with the mirror setting flipped
// (off -> on and on -> off) and receives data only. Every such datagram must be published as its stand-alone decode:
// whether a template counts as known must not depend on whether a copy of the datagram is also sent elsewhere.
func mirrorAcrossLives(run *mon.Run, bin, dir string) {
	for vi, firstMirror := range []bool{false, true} {
		g := mon.NewRNG(run.Seed, "e2e-mirror-lives", vi)
		pdir := filepath.Join(dir, fmt.Sprintf("lives%d", vi))
		os.MkdirAll(pdir, 0o755)
		lc, err := net.ListenUDP("udp4", &net.UDPAddr{IP: net.IPv4(127, 0, 0, 1)})
		if err != nil {
			run.HarnessError(err.Error())
			return
		}
		go func() {
			b := make([]byte, 70000)
			for {
				if _, _, err := lc.ReadFromUDP(b); err != nil {
					return
				}
			}
		}()
		sink, err := newSinkT()
		if err != nil {
			run.HarnessError(err.Error())
			lc.Close()
			return
		}
		port, statsPort := reservedPort(), reservedPort()
		o := wire.GenOpts{Elems: snapE, Reduced: true, MaxFields: 6, MaxStrLen: 8, OnlyPEN0: true, Varlen: true}
		type expT struct {
			ip  net.IP
			tpl *wire.Template
			ann []byte
		}
		var exps []expT
		for i := 0; i < 12; i++ {
			t := wire.GenTemplate(g, uint16(256+i%3), o)
			t.Fields, t.Scope, t.Options = t.All(), nil, false
			ann, _ := wire.EncodeFlow("ipfix", []uint32{1, 2, 3, 4}, []wire.Set{{Kind: wire.SetTemplate, Templates: []*wire.Template{t}}})
			exps = append(exps, expT{net.IPv4(127, 88, byte(vi), byte(1+i)).To4(), t, ann})
		}
		seq := uint32(5000)
		desc := fmt.Sprintf("two lives on one cache file, mirroring %v in the first and %v in the second", firstMirror, !firstMirror)
		ok := true
		for life := 0; life < 2 && ok; life++ {
			mirrorOn := firstMirror == (life == 0)
			conf := map[string]string{
				"mq-name": "rawSocket", "mq-config-file": "mq.conf", "ipfix-rpc-enabled": "false", "dynamic-workers": "false",
				"stats-format": "rest", "stats-http-port": strconv.Itoa(statsPort), "stats-http-addr": "127.0.0.1",
				"pid-file": filepath.Join(pdir, "vflow.pid"), "ipfix-tpl-cache-file": filepath.Join(pdir, "i.tpl"),
				"sflow-enabled": "false", "netflow5-enabled": "false", "netflow9-enabled": "false",
				"ipfix-port": strconv.Itoa(port), "ipfix-workers": "4",
			}
			if mirrorOn {
				conf["ipfix-mirror-addr"], conf["ipfix-mirror-port"] = "127.0.0.1", strconv.Itoa(lc.LocalAddr().(*net.UDPAddr).Port)
			}
			writeConf(pdir, conf, sink.port)
			col, err := startCollector(bin, pdir, nil, nil, nil)
			if err != nil {
				run.HarnessError(err.Error())
				break
			}
			for d := time.Now().Add(15 * time.Second); time.Now().Before(d) && col.alive(); time.Sleep(5 * time.Millisecond) {
				if udp, tcp := sockets(col.pid()); udp[port] && tcp[statsPort] != "" {
					break
				}
			}
			time.Sleep(400 * time.Millisecond) // the mirror dispatcher flips its flag on its own goroutine
			snd := newSender()
			lib := &libC{ic: ipfix.GetCache(""), nc: netflow9.GetCache("")}
			type probe struct {
				e    expT
				seq  uint32
				want []byte
			}
			var probes []probe
			for _, e := range exps {
				libDecodeAny("ipfix", mapped(e.ip), e.ann, lib)
				if life == 0 {
					snd.send(e.ip, port, e.ann)
				}
			}
			time.Sleep(100 * time.Millisecond)
			for _, e := range exps {
				seq++
				ds := wire.GenDataSet(g, e.tpl, 1, o, 0)
				ds.Pad = 0
				b, _ := wire.EncodeFlow("ipfix", []uint32{7, seq, 9, 0}, []wire.Set{ds})
				probes = append(probes, probe{e, seq, libDecode("ipfix", mapped(e.ip), b, lib)})
				snd.send(e.ip, port, b)
			}
			sink.waitLines(func(ls []string) bool {
				n := 0
				for _, l := range ls {
					if m := seqRe2["ipfix"].FindStringSubmatch(l); m != nil {
						if v, _ := strconv.Atoi(m[1]); v > int(seq)-len(exps) {
							n++
						}
					}
				}
				return n >= len(exps)
			}, 3*time.Second)
			bySeq := map[string]string{}
			for _, l := range sink.snapshot() {
				if m := seqRe2["ipfix"].FindStringSubmatch(l); m != nil {
					bySeq[m[1]] = l
				}
			}
			run.Eval(1)
			run.Distinct(fmt.Sprintf("%s|life%d", desc, life))
			for _, p := range probes {
				got, have := bySeq[fmt.Sprint(p.seq)]
				if p.want != nil && (!have || got != string(p.want)) {
					w := blastWitness{Seed: run.Seed, Index: vi, Desc: desc, Detail: fmt.Sprintf("life %d, mirroring %v", life+1, mirrorOn), Stderr: clip(col.stderr(), 2000), Got: clip(got, 500), Want: clip(string(p.want), 500)}
					run.Violation("e2e-mirror:publishing-depends-on-mirroring", fmt.Sprintf("%s: in life %d (mirroring %v) data of exporter %v, whose template was learnt %s, is %s", desc, life+1, mirrorOn, p.e.ip,
						map[bool]string{true: "in this life", false: "in the previous life (mirroring " + fmt.Sprint(!mirrorOn) + ") and saved in the cache file"}[life == 0],
						map[bool]string{true: "published differently from its stand-alone decode", false: "not published"}[have]), w)
					ok = false
					break
				}
			}
			col.cmd.Process.Signal(syscall.SIGTERM)
			col.wait(10 * time.Second)
			col.kill()
			snd.close()
		}
		sink.close()
		lc.Close()
	}
}
