package main

import (
	"bytes"
	"encoding/json"
	"fmt"
	"net"
	"os"
	"path/filepath"
	"strconv"
	"strings"
	"syscall"
	"time"

	"verif/harness/mon"
	"verif/harness/pipe"
	"verif/harness/wire"
)

// kernelDrops sums the drop counters of the UDP sockets bound to the given ports.
func kernelDrops(ports map[int]bool) int64 {
	var total int64
	for _, f := range []string{"/proc/net/udp", "/proc/net/udp6"} {
		b, err := os.ReadFile(f)
		if err != nil {
			continue
		}
		for i, l := range strings.Split(string(b), "\n") {
			fl := strings.Fields(l)
			if i == 0 || len(fl) < 13 {
				continue
			}
			la := strings.Split(fl[1], ":")
			port, _ := strconv.ParseInt(la[len(la)-1], 16, 32)
			if ports[int(port)] {
				d, _ := strconv.ParseInt(fl[len(fl)-1], 10, 64)
				total += d
			}
		}
	}
	return total
}

type blastWitness struct {
	Seed   int64  `json:"seed"`
	Index  int    `json:"index"`
	Desc   string `json:"scenario"`
	Detail string `json:"detail"`
	Got    string `json:"published,omitempty"`
	Want   string `json:"standalone,omitempty"`
	Dgram  string `json:"datagram,omitempty"`
	Stderr string `json:"stderr_head,omitempty"`
}

var protoNames = map[string]struct{ conf, js string }{
	"ipfix": {"ipfix", "IPFIX"}, "nf9": {"netflow9", "NetflowV9"}, "nf5": {"netflow5", "NetflowV5"}, "sflow": {"sflow", "SFlow"},
}

// blastMain is the end-to-end tier of C12, C13 and C01: the real binary, real UDP sockets, real
// run() loops, workers, producer and a TCP sink.
func blastMain(args mon.Args, prop string) {
	run := mon.NewRun(prop, "e2e/blast", "exploration")
	var err error
	snapE, err = wire.LoadSnapshot(mon.Root())
	if err != nil {
		run.HarnessError(err.Error())
		run.Finish()
	}
	bin, err := buildBinary(false)
	if err != nil {
		run.HarnessError(err.Error())
		run.Finish()
	}
	dir := os.Getenv("VERIF_RUN")
	nProc := run.Pick(2, 12)
	if prop == "C01" {
		nProc = run.Pick(2, 10)
	}
	var totalSent, totalPub, totalDrops, exactFed, backlogFed, redefFed int64
	for pi := 0; pi < nProc; pi++ {
		g := mon.NewRNG(run.Seed, "blast-"+prop, pi)
		pdir := filepath.Join(dir, fmt.Sprintf("blast%d", pi))
		os.MkdirAll(pdir, 0o755)
		sink, err := newSinkT()
		if err != nil {
			run.HarnessError(err.Error())
			continue
		}
		ports := map[string]int{"ipfix": reservedPort(), "nf9": reservedPort(), "nf5": reservedPort(), "sflow": reservedPort()}
		statsPort := reservedPort()
		workers := []int{4, 1, 32}[pi%3]
		udpSize := []int{1500, 512, 9000}[pi%3]
		if prop == "C13" && workers == 1 {
			udpSize = 9000 // large datagrams keep the single worker busy long enough for a backlog to form
		}
		conf := map[string]string{
			"mq-name": "rawSocket", "mq-config-file": "mq.conf", "ipfix-rpc-enabled": "false", "dynamic-workers": "false",
			"stats-format": "rest", "stats-http-port": strconv.Itoa(statsPort), "stats-http-addr": "127.0.0.1",
			"pid-file": filepath.Join(pdir, "vflow.pid"), "ipfix-tpl-cache-file": filepath.Join(pdir, "i.tpl"), "netflow9-tpl-cache-file": filepath.Join(pdir, "n.tpl"),
			"ipfix-port": strconv.Itoa(ports["ipfix"]), "netflow9-port": strconv.Itoa(ports["nf9"]), "netflow5-port": strconv.Itoa(ports["nf5"]), "sflow-port": strconv.Itoa(ports["sflow"]),
			"ipfix-workers": strconv.Itoa(workers), "netflow9-workers": strconv.Itoa(workers), "netflow5-workers": strconv.Itoa(workers), "sflow-workers": strconv.Itoa(workers),
			"ipfix-udp-size": strconv.Itoa(udpSize), "netflow9-udp-size": strconv.Itoa(udpSize), "sflow-udp-size": strconv.Itoa(udpSize), "netflow5-udp-size": "1464",
		}
		if pi%2 == 1 {
			conf["verbose"] = "true" // the per-datagram log lines of the workers are code that runs on every datagram, good or bad
		}
		mirrorOn := prop == "C01" && pi%2 == 1
		var mirrorLn *net.UDPConn
		if mirrorOn {
			mirrorLn, _ = net.ListenUDP("udp4", &net.UDPAddr{IP: net.IPv4(127, 0, 0, 1)})
			if mirrorLn != nil {
				mp := mirrorLn.LocalAddr().(*net.UDPAddr).Port
				conf["ipfix-mirror-addr"], conf["ipfix-mirror-port"] = "127.0.0.1", strconv.Itoa(mp)
				conf["sflow-mirror-addr"], conf["sflow-mirror-port"] = "127.0.0.1", strconv.Itoa(mp)
				go func() {
					b := make([]byte, 70000)
					for {
						if _, _, err := mirrorLn.ReadFromUDP(b); err != nil {
							return
						}
					}
				}()
			}
		}
		writeConf(pdir, conf, sink.port)
		desc := fmt.Sprintf("collector #%d workers=%d max-udp-size=%d mirror=%v verbose=%v", pi, workers, udpSize, mirrorOn, pi%2 == 1)
		col, err := startCollector(bin, pdir, nil, nil, nil)
		if err != nil {
			run.HarnessError(err.Error())
			sink.close()
			continue
		}
		wit := func(detail string) blastWitness {
			return blastWitness{Seed: run.Seed, Index: pi, Desc: desc, Detail: detail, Stderr: clip(col.stderr(), 2500)}
		}
		ready := false
		for d := time.Now().Add(15 * time.Second); time.Now().Before(d) && col.alive(); time.Sleep(5 * time.Millisecond) {
			udp, tcp := sockets(col.pid())
			if udp[ports["ipfix"]] && udp[ports["nf9"]] && udp[ports["nf5"]] && udp[ports["sflow"]] && tcp[statsPort] != "" {
				ready = true
				break
			}
		}
		if !ready {
			run.Inconclusive(desc + ": collector not ready: " + clip(col.stderr(), 300))
			col.kill()
			sink.close()
			continue
		}
		portSet := map[int]bool{}
		for _, p := range ports {
			portSet[p] = true
		}
		snd := newSender()
		// exporters: 127.x.y.z, seen by the dual-stack sockets in 16-byte mapped form
		var exps [][]byte
		for i, n := 0, g.Range(3, 30); i < n; i++ {
			exps = append(exps, mapped(net.IPv4(127, byte(10+pi), byte(g.Intn(250)), byte(1+i))))
		}
		type sentD struct {
			proto string
			f     pipe.FedInfo
		}
		var all []sentD
		lib := pipe.NewLibCache()
		id := 0
		sentPer := map[string]int{}
		aheadOctets := map[string]int{}
		flowOK := func() (flowStats, bool) {
			fl, err := getFlow("127.0.0.1", statsPort)
			return fl, err == nil
		}
		// windowed sending: never more than 150 datagrams ahead of the collector's own UDPCount
		send := func(proto string, e, d []byte) {
			snd.send(net.IP(e[12:16]), ports[proto], d)
			sentPer[proto]++
			// the collector's socket buffer (208 KiB by default) is charged the datagram plus its skb overhead
			aheadOctets[proto] += len(d) + 1280
			if sentPer[proto]%150 == 0 || aheadOctets[proto] > 96<<10 {
				aheadOctets[proto] = 0
				for w := 0; w < 400; w++ {
					fl, ok := flowOK()
					if !ok || !col.alive() {
						break
					}
					if int(fl[protoNames[proto].js]["UDPCount"])+int(kernelDrops(map[int]bool{ports[proto]: true})) >= sentPer[proto] {
						break
					}
					time.Sleep(2 * time.Millisecond)
				}
			}
		}
		for _, proto := range []string{"ipfix", "nf9", "nf5", "sflow"} {
			tr := pipe.NewTraffic(g, proto, len(exps), udpSize, snapE, true, false, exps...)
			if proto == "nf5" {
				tr.UDPSize = 1464
			}
			feed := func(e, d []byte, kind string) {
				id++
				lim := udpSize
				if proto == "nf5" {
					lim = 1464
				}
				seen := d
				if len(seen) > lim {
					seen = seen[:lim]
				}
				f := pipe.FedInfo{ID: id, Addr: e, Dgram: seen, Kind: kind}
				all = append(all, sentD{proto, f})
				send(proto, e, d)
			}
			if proto == "ipfix" || proto == "nf9" {
				for _, e := range exps {
					feed(e, tr.TplDgrams[mon.Hex(e)], "templates")
				}
				// templates must be in force before data: wait until they have been counted as decoded
				for w := 0; w < 1000; w++ {
					fl, ok := flowOK()
					if ok && int(fl[protoNames[proto].js]["DecodedCount"]) >= len(exps) {
						break
					}
					time.Sleep(2 * time.Millisecond)
				}
			}
			if prop != "C12" {
				// the shortest datagrams, on every port: 0..8 octets of zeros, ones and a valid prefix
				e := exps[0]
				valid := tr.Data(e, 1<<30, false)
				for l := 0; l <= 8; l++ {
					id++
					feed(e, make([]byte, l), "tiny zeros")
					id++
					feed(e, bytes.Repeat([]byte{0xff}, l), "tiny ones")
					if l <= len(valid) {
						id++
						feed(e, valid[:l], "tiny valid prefix")
					}
				}
			}
			// datagrams that fill the receive buffer exactly (and one octet less): complete and decodable, and
			// indistinguishable for a read loop from a datagram that was cut - they must be taken like any other
			{
				lim := udpSize
				if proto == "nf5" {
					lim = 1464
				}
				for k := 0; k < 6; k++ {
					e := exps[g.Intn(len(exps))]
					for _, sz := range []int{lim, lim - 4, lim - 8} {
						if proto == "nf5" {
							sz = lim - 48*((lim-sz)/4)
						}
						if d := tr.DataExact(e, id+1, sz); d != nil {
							feed(e, d, fmt.Sprintf("data of exactly %d octets (max-udp-size %d)", len(d), lim))
							exactFed++
						}
					}
				}
			}
			// a backlog: one worker cannot keep up with 6000 datagrams sent as fast as the collector's own UDPCount
			// allows, so the 1000-slot hand-over queue between the read loop and the worker fills. Every datagram the
			// collector counts as received must still be decoded and published.
			if prop == "C13" && workers == 1 && proto == "ipfix" {
				type pre struct{ e, d []byte }
				var burst []pre
				for k := 0; k < 3000; k++ {
					e := exps[g.Intn(len(exps))]
					burst = append(burst, pre{e, tr.Data(e, id+1+k, true)}) // generated beforehand: the sender must outrun the worker
				}
				for _, b := range burst {
					feed(b.e, b.d, "data (backlog burst)")
				}
				backlogFed += int64(len(burst))
			}
			n := run.Pick(600, 6000)
			for k := 0; k < n; k++ {
				e := exps[g.Intn(len(exps))]
				r := g.Intn(100)
				switch {
				case prop != "C12" && r < 25:
					d := tr.Data(e, id+1, false)
					switch g.Intn(5) {
					case 0:
						d = d[:g.Intn(len(d))]
					case 1:
						d = g.Bytes(g.Range(1, 200))
					case 2:
						d = append([]byte{}, d...)
						// flips stay behind the message header: the identity (exporter, sequence number) of a datagram
						// must remain its own, or two datagrams would legitimately publish the same identity
						for j := g.Range(1, 4); j > 0 && len(d) > 48; j-- {
							d[44+g.Intn(len(d)-44)] ^= byte(1 << uint(g.Intn(8)))
						}
					case 3:
						d = append([]byte{}, d...)
						if len(d) > 52 {
							copy(d[44+g.Intn(len(d)-48):], []byte{0xff, 0xff, 0xff, 0xff})
						}
					default:
						if proto == "ipfix" || proto == "nf9" {
							d = tr.TplDgrams[mon.Hex(e)] // same definitions again
						}
					}
					feed(e, d, "hostile")
				case r >= 92 && (proto == "ipfix" || proto == "nf9"):
					feed(e, tr.DataMixed(e, id+1, k%2 == 0), "data mixed with a set of an unknown template")
				case r >= 84:
					d := tr.Data(e, id+1, k%2 == 0)
					if cut := 1 + g.Intn(160); cut < len(d) {
						d = d[:len(d)-cut]
					}
					feed(e, d, "data cut short at the tail")
				default:
					feed(e, tr.Data(e, id+1, k%2 == 0), "data")
				}
			}
			// every exporter now redefines its templates (same ids, new fields) while the workers that decoded the
			// earlier data are still alive; once the redefinitions are decoded, data follows. Each message must be
			// decoded with the definition in force, whichever worker picks it up and whatever that worker saw before.
			if (proto == "ipfix" || proto == "nf9") && prop != "C01" {
				quiet := func() {
					for w, okN := 0, 0; w < 1500 && okN < 5 && col.alive(); w++ {
						fl, ok := flowOK()
						if ok && fl[protoNames[proto].js]["UDPQueue"] == 0 && int(fl[protoNames[proto].js]["UDPCount"])+int(kernelDrops(map[int]bool{ports[proto]: true})) >= sentPer[proto] {
							okN++
						} else {
							okN = 0
						}
						time.Sleep(3 * time.Millisecond)
					}
				}
				// first every worker decodes data of ONE (exporter, template): whatever a worker remembers from its last
				// datagram is that pair when the redefinition arrives
				for k := 0; k < 8*workers+8; k++ {
					feed(exps[0], tr.DataOf(exps[0], id+1, false, 0), "data (one exporter, one template)")
				}
				quiet()
				tr2 := pipe.NewTraffic(g, proto, len(exps), udpSize, snapE, true, false, exps...)
				// ONE datagram carries the redefinition, so one worker sees it: all the others must still decode the data
				// that follows with the new definition (a worker that went by what it remembered would not)
				feed(exps[0], tr2.TplDgrams[mon.Hex(exps[0])], "templates of one exporter redefined")
				quiet()
				for k := 0; k < 8*workers+8; k++ {
					feed(exps[0], tr2.DataOf(exps[0], id+1, false, 0), "data of the pair every worker decoded last, after its redefinition")
				}
				for k := 0; k < run.Pick(200, 2000); k++ {
					e := exps[g.Intn(len(exps))]
					if k%3 == 0 {
						feed(exps[0], tr2.Data(exps[0], id+1, k%2 == 0), "data after the redefinition")
					} else {
						feed(e, tr.Data(e, id+1, k%2 == 0), "data")
					}
				}
				redefFed++
			}
		}
		// quiescence: the collector's counters stop moving and account for everything sent
		var fl flowStats
		stable := 0
		var lastSig string
		for w := 0; w < 3000 && stable < 15 && col.alive(); w++ {
			f2, ok := flowOK()
			if !ok {
				time.Sleep(5 * time.Millisecond)
				continue
			}
			fl = f2
			sig := fmt.Sprint(fl, sink.count())
			busy := false
			for _, m := range fl {
				if m["UDPQueue"] > 0 || m["MessageQueue"] > 0 {
					busy = true
				}
			}
			if sig == lastSig && !busy {
				stable++
			} else {
				stable = 0
			}
			lastSig = sig
			time.Sleep(10 * time.Millisecond)
		}
		run.Eval(1)
		alive := col.alive()
		crash := crashText(col.stderr())
		if !alive || crash != "" {
			site := "unknown"
			for _, l := range strings.Split(crash, "\n") {
				if strings.HasPrefix(l, "main.") || strings.HasPrefix(l, "github.com/EdgeCast/vflow/") {
					site = strings.TrimPrefix(l, "github.com/EdgeCast/vflow/")
					if i := strings.LastIndex(site, "("); i > 0 {
						site = site[:i]
					}
					break
				}
			}
			run.Violation("blast:collector-died:"+site, fmt.Sprintf("%s: the collector died while receiving traffic: %s", desc, clip(crash, 500)), wit("collector died"))
			col.kill()
			sink.close()
			snd.close()
			continue
		}
		drops := kernelDrops(portSet)
		totalDrops += drops
		// expectations in the order the collector saw the templates (phase order), on the frozen cache
		for i := range all {
			f := &all[i].f
			f.Expect, f.Class, _ = pipe.Standalone(all[i].proto, f.Addr, f.Dgram, lib, nil)
		}
		lines := sink.snapshot()
		totalSent += int64(len(all))
		totalPub += int64(len(lines))
		if prop == "C01" {
			// survival is the verdict; the counters show that the datagrams were really taken in
			for proto, n := range sentPer {
				got := int(fl[protoNames[proto].js]["UDPCount"])
				if got+int(drops) < n*9/10 {
					run.Inconclusive(fmt.Sprintf("%s: %s UDPCount %d of %d sent (kernel drops %d)", desc, proto, got, n, drops))
				}
			}
			run.Distinct(desc)
		} else {
			// identity → expected payload
			type exp struct {
				f *pipe.FedInfo
				p string
			}
			byKey := map[string]exp{}
			ambiguous := map[string]bool{}
			perProto := map[string][3]int{} // definite, partial, publishable
			for i := range all {
				f := &all[i].f
				pp := perProto[all[i].proto]
				switch f.Class {
				case "definite":
					pp[0]++
				case "partial":
					pp[1]++
				}
				if f.Expect != nil {
					pp[2]++
					k := all[i].proto + "|" + pipe.PayloadKey(all[i].proto, f.Expect)
					if _, dup := byKey[k]; dup {
						ambiguous[k] = true // two sent datagrams carry the same identity: not judged
					}
					byKey[k] = exp{f, all[i].proto}
				}
				perProto[all[i].proto] = pp
			}
			seen := map[string]int{}
			for _, l := range lines {
				b := []byte(l)
				proto := "?"
				switch {
				case bytes.Contains(b, []byte(`"Header":{"Version":10,`)):
					proto = "ipfix"
				case bytes.Contains(b, []byte(`"Header":{"Version":9,`)):
					proto = "nf9"
				case bytes.Contains(b, []byte(`"Header":{"Version":5,`)):
					proto = "nf5"
				case bytes.HasPrefix(b, []byte(`{"Version":5,`)):
					proto = "sflow"
					b = pipe.MaskColTime(b)
				}
				k := proto + "|" + pipe.PayloadKey(proto, b)
				e, ok := byKey[k]
				if !ok {
					w := wit("a line at the sink carries an identity that no sent datagram with records has")
					w.Got = clip(l, 800)
					sig := "blast:foreign-payload"
					if prop == "C13" {
						sig = "blast:published-not-received"
					}
					run.Violation(sig+":"+proto, fmt.Sprintf("%s: the sink received a message with identity %s that matches no datagram sent: %s", desc, k, clip(l, 200)), w)
					continue
				}
				seen[k]++
				if ambiguous[k] {
					continue
				}
				if prop == "C12" && !bytes.Equal(b, e.f.Expect) {
					w := wit("published message differs from the stand-alone decode of its datagram")
					w.Got, w.Want, w.Dgram = clip(string(b), 1200), clip(string(e.f.Expect), 1200), mon.Hex(e.f.Dgram)
					run.Violation("blast:payload-differs:"+proto, fmt.Sprintf("%s: datagram %d (%d octets): published message differs from its stand-alone decode", desc, e.f.ID, len(e.f.Dgram)), w)
				}
				if prop == "C13" && seen[k] == 2 {
					run.Violation("blast:published-twice:"+proto, fmt.Sprintf("%s: datagram %d was published twice", desc, e.f.ID), wit("duplicate"))
				}
			}
			if prop == "C12" && drops == 0 {
				// "what decoding that datagram on its own would produce" includes producing something at all
				for k, e := range byKey {
					if seen[k] == 0 && !ambiguous[k] && fl[protoNames[e.p].js]["MQErrorCount"] == 0 {
						w := wit("nothing was published for a datagram whose stand-alone decode yields a message")
						w.Dgram, w.Want = mon.Hex(e.f.Dgram), clip(string(e.f.Expect), 800)
						run.Violation("blast:message-missing:"+e.p, fmt.Sprintf("%s: datagram %d (%s, %d octets) decodes to a message on its own, the collector published nothing for it (no kernel drops, no queue errors)", desc, e.f.ID, e.f.Kind, len(e.f.Dgram)), w)
						break
					}
				}
			}
			if prop == "C13" {
				for proto, pp := range perProto {
					st := fl[protoNames[proto].js]
					udpc, dec := int(st["UDPCount"]), int(st["DecodedCount"])
					if drops == 0 {
						if udpc != sentPer[proto] {
							run.Violation("blast:udp-count:"+proto, fmt.Sprintf("%s: %s UDPCount = %d, %d datagrams were sent and the kernel dropped none", desc, proto, udpc, sentPer[proto]), wit("UDPCount"))
						}
						if dec < pp[0] || dec > pp[0]+pp[1] {
							run.Violation("blast:decoded-count:"+proto, fmt.Sprintf("%s: %s DecodedCount = %d; %d datagrams decode successfully and %d more partially", desc, proto, dec, pp[0], pp[1]), wit("DecodedCount"))
						}
						missing := 0
						var first *pipe.FedInfo
						for k, e := range byKey {
							if e.p == proto && seen[k] == 0 {
								if first == nil {
									first = e.f
								}
								missing++
							}
						}
						if missing > 0 && st["MQErrorCount"] == 0 {
							w := wit("datagram with records never reached the sink")
							w.Dgram = mon.Hex(first.Dgram)
							run.Violation("blast:not-published:"+proto, fmt.Sprintf("%s: %d of %d %s datagrams that yield records were never published (first: datagram %d, %s)", desc, missing, pp[2], proto, first.ID, first.Kind), w)
						}
					} else if udpc > sentPer[proto] {
						run.Violation("blast:udp-count:"+proto, fmt.Sprintf("%s: %s UDPCount = %d exceeds the %d datagrams sent", desc, proto, udpc, sentPer[proto]), wit("UDPCount"))
					} else {
						run.Inconclusive(fmt.Sprintf("%s: the kernel dropped %d datagrams; exact accounting not judged for this process", desc, drops))
					}
				}
			}
			run.Distinct(desc)
			if pi == 0 && len(lines) > 0 {
				run.Sample(map[string]interface{}{"scenario": desc, "sent": len(all), "lines_at_sink": len(lines), "flow": fl, "first_line": clip(lines[0], 300)})
			}
		}
		col.cmd.Process.Signal(syscall.SIGTERM)
		col.wait(10 * time.Second)
		col.kill()
		sink.close()
		snd.close()
		if mirrorLn != nil {
			mirrorLn.Close()
		}
	}
	if prop == "C12" || prop == "C13" {
		stallProcess(run, prop, bin, dir)
	}
	if prop == "C01" && args.Replay == "" {
		stormProcess(run, dir)
	}
	run.Set("datagrams_sent_over_udp", totalSent)
	run.Set("datagrams_exactly_filling_the_receive_buffer", exactFed)
	run.Set("datagrams_sent_as_backlog_bursts_to_a_single_worker", backlogFed)
	run.Set("template_redefinitions_between_two_data_phases", redefFed)
	run.Set("messages_at_the_sink", totalPub)
	run.Set("kernel_drops", totalDrops)
	run.Set("collector_processes", nProc)
	switch prop {
	case "C01":
		run.SetRule("end-to-end tier: the real binary on all four UDP ports, worker counts 1/4/32, max-udp-size 512/1500/9000, mirroring and verbose logging on in every second process; well-formed traffic mixed with 25% truncated, random, bit-flipped and length-poisoned datagrams; verdict = the process is alive, nothing panicked, and its counters show the datagrams were taken in. A further process (race-detector build, 32 workers) takes unchanged template re-announcements of 300 exporters mixed with data around 2 (thorough: 6) wall-clock second boundaries - cache entries carry their announcement time, so this everyday traffic reaches code no sub-second run reaches; it must survive and the race detector must see no unsynchronised access to a Go map from collector code (the pattern the runtime turns into 'fatal error: concurrent map writes')")
	case "C12":
		run.SetRule("end-to-end tier: the real binary (real run() loops, sockets, workers, producer, TCP sink), exporters 127.x.y.z, templates in force before data; every line at the sink must equal byte-for-byte the stand-alone decode of its datagram (this is where a change inside run(), e.g. handing over b instead of b[:n], becomes visible)")
	case "C13":
		run.SetRule("end-to-end tier: windowed sending against /flow; at quiescence UDPCount equals the datagrams sent (kernel drop counters of the collector's sockets read from /proc/net/udp*), DecodedCount within [definite, definite+partial], every datagram with records exactly once at the sink, nothing else")
	}
	run.Finish()
}

var _ = json.Valid
