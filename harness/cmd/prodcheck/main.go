// prodcheck decides C14: the real rawSocket producer (and NATS for content) against an in-process
// sink, with every kind of connection fault injected at enumerated points. Time is logical:
// messages are handed over on an unbuffered channel (hand-over k+1 accepted ⇒ message k fully
// processed) and sink state changes only after a barrier message has been read by the sink.
package main

import (
	"bytes"
	"encoding/json"
	"fmt"
	"io"
	"log"
	"net"
	"os"
	"path/filepath"
	"regexp"
	"strconv"
	"strings"
	"sync"
	"sync/atomic"
	"time"

	"github.com/EdgeCast/vflow/producer"

	"verif/harness/mon"
)

type fault struct {
	After   int    `json:"after_judged_message"` // injected after this many judged messages (0 = before the first)
	Kind    string `json:"kind"`                 // close | rst | down | midline
	Down    int    `json:"down_handovers"`       // judged messages handed over while the sink is unreachable
	PauseMs int    `json:"pause_ms,omitempty"`   // stall only: the sink sleeps this long and reads on instead of resetting
	IdleMs  int    `json:"idle_ms,omitempty"`    // nothing is handed over for this long before the fault: a producer that has been up for a while
}

type scenario struct {
	ID       int     `json:"id"`
	Proto    string  `json:"protocol"`
	Retry    int     `json:"retry_max"`
	N        int     `json:"judged_messages"`
	Faults   []fault `json:"faults"`
	Content  string  `json:"content"` // plain | percent | big | mixed
	Seed     int64   `json:"seed"`
	Backlog  int     `json:"channel_capacity"` // 0: unbuffered hand-over (logical time); >0: bursts into a buffered channel, no faults
	Spelling string  `json:"protocol_as_configured,omitempty"`
	ByName   bool    `json:"sink_configured_by_name,omitempty"` // url: <name>:<port>, resolved by the harness's DNS responder
}

type handed struct {
	K      int // index among all hand-overs
	Judged bool
	J      int // judged index (if judged)
	Msg    []byte
}

type sinkConn struct {
	mu     sync.Mutex
	buf    []byte
	c      net.Conn
	closed bool
}

type sink struct {
	proto  string
	host   string // address the sink listens on ("" = 127.0.0.1)
	port   int
	mu     sync.Mutex
	cond   *sync.Cond
	ln     net.Listener
	pc     net.PacketConn
	conns  []*sinkConn // tcp: in accept order
	dgs    [][]byte    // udp: datagrams in arrival order
	limit  int64       // midline: stop reading the current connection after this many octets (0 = no limit)
	resets int         // mid-line resets performed
	stall  bool        // the sink has stopped reading (back-pressure); connections stay open
}

func newSink(proto string) (*sink, error) {
	s := &sink{proto: proto}
	s.cond = sync.NewCond(&s.mu)
	if err := s.open(0); err != nil {
		return nil, err
	}
	return s, nil
}

func (s *sink) open(port int) error {
	host := s.host
	if host == "" {
		host = "127.0.0.1"
	}
	addr := fmt.Sprintf("%s:%d", host, port)
	if s.proto == "udp" {
		pc, err := net.ListenPacket("udp", addr)
		if err != nil {
			return err
		}
		pc.(*net.UDPConn).SetReadBuffer(8 << 20)
		s.mu.Lock()
		s.pc = pc
		s.port = pc.LocalAddr().(*net.UDPAddr).Port
		s.mu.Unlock()
		go func() {
			b := make([]byte, 70000)
			for {
				n, _, err := pc.ReadFrom(b)
				if err != nil {
					return
				}
				s.mu.Lock()
				s.dgs = append(s.dgs, append([]byte{}, b[:n]...))
				s.cond.Broadcast()
				s.mu.Unlock()
			}
		}()
		return nil
	}
	ln, err := net.Listen("tcp", addr)
	if err != nil {
		return err
	}
	s.mu.Lock()
	s.ln = ln
	s.port = ln.Addr().(*net.TCPAddr).Port
	s.mu.Unlock()
	go func() {
		for {
			c, err := ln.Accept()
			if err != nil {
				return
			}
			sc := &sinkConn{c: c}
			s.mu.Lock()
			s.conns = append(s.conns, sc)
			s.mu.Unlock()
			go func() {
				b := make([]byte, 65536)
				var total int64
				for {
					s.mu.Lock()
					for s.stall && !sc.closed {
						s.cond.Wait()
					}
					s.mu.Unlock()
					n, err := c.Read(b)
					if n > 0 {
						s.mu.Lock()
						sc.buf = append(sc.buf, b[:n]...)
						total += int64(n)
						lim := s.limit
						s.cond.Broadcast()
						s.mu.Unlock()
						if os.Getenv("PROD_DEBUG") != "" {
							fmt.Fprintf(os.Stderr, "sink read %d total %d lim %d\n", n, total, lim)
						}
						if lim > 0 && total >= lim {
							// mid-line fault: stop in the middle of a message and reset
							if tc, ok := c.(*net.TCPConn); ok {
								tc.SetLinger(0)
							}
							c.Close()
							s.mu.Lock()
							s.limit = 0
							s.resets++
							s.cond.Broadcast()
							s.mu.Unlock()
							return
						}
					}
					if err != nil {
						if os.Getenv("PROD_DEBUG") != "" {
							fmt.Fprintf(os.Stderr, "sink read error %v\n", err)
						}
						return
					}
				}
			}()
		}
	}()
	return nil
}

// lines returns the complete lines received so far, connections in accept order (tcp) or the
// datagrams (udp).
func (s *sink) lines() [][]byte {
	var out [][]byte
	if s.proto == "udp" {
		for _, d := range s.dgs {
			out = append(out, d)
		}
		return out
	}
	for _, c := range s.conns {
		parts := bytes.Split(c.buf, []byte{'\n'})
		for _, p := range parts[:len(parts)-1] { // the last part is a torn or empty tail
			out = append(out, append(append([]byte{}, p...), '\n'))
		}
	}
	return out
}

var idRe = regexp.MustCompile(`^\{"id":"(\d+)-(\d+)"`)

// crossed: scenarios whose producer reached ANOTHER scenario's sink. The only way this can happen without a producer
// fault is in the harness: a sink that is "down" has given up its port number, and a sink of a parallel scenario
// may be given that number by the kernel; the first producer then reconnects to a stranger. Both scenarios are
// inconclusive then - but only if the straying producer's own sink had a down period (hasDown); lines of a
// producer whose sink never went away have no such excuse and stay a violation.
var crossed sync.Map
var hasDown = map[int]bool{}


// waitFor blocks until a line with hand-over index k has been read by the sink.
func (s *sink) waitFor(scn, k int, d time.Duration) bool {
	deadline := time.Now().Add(d)
	want := []byte(fmt.Sprintf(`{"id":"%d-%d"`, scn, k))
	s.mu.Lock()
	defer s.mu.Unlock()
	for {
		for _, l := range s.lines() {
			if bytes.HasPrefix(l, want) {
				return true
			}
		}
		if time.Now().After(deadline) {
			return false
		}
		t := time.AfterFunc(50*time.Millisecond, func() { s.mu.Lock(); s.cond.Broadcast(); s.mu.Unlock() })
		s.cond.Wait()
		t.Stop()
	}
}

// waitResets blocks until the sink has performed n mid-line resets.
func (s *sink) waitResets(n int, d time.Duration) bool {
	deadline := time.Now().Add(d)
	s.mu.Lock()
	defer s.mu.Unlock()
	for s.resets < n {
		if time.Now().After(deadline) {
			return false
		}
		t := time.AfterFunc(50*time.Millisecond, func() { s.mu.Lock(); s.cond.Broadcast(); s.mu.Unlock() })
		s.cond.Wait()
		t.Stop()
	}
	return true
}

// waitCount (udp pacing) waits briefly until n datagrams have arrived; a timeout is not an error
// here - a datagram that never arrives is judged by the stream oracle at the end.
func (s *sink) waitCount(n int, d time.Duration) {
	deadline := time.Now().Add(d)
	s.mu.Lock()
	defer s.mu.Unlock()
	for len(s.dgs) < n {
		if time.Now().After(deadline) {
			return
		}
		t := time.AfterFunc(5*time.Millisecond, func() { s.mu.Lock(); s.cond.Broadcast(); s.mu.Unlock() })
		s.cond.Wait()
		t.Stop()
	}
}

func (s *sink) setStall(v bool) {
	s.mu.Lock()
	s.stall = v
	s.cond.Broadcast()
	s.mu.Unlock()
}

func (s *sink) closeCurrent(rst bool) {
	s.mu.Lock()
	var c net.Conn
	if n := len(s.conns); n > 0 {
		c = s.conns[n-1].c
		s.conns[n-1].closed = true
		s.cond.Broadcast()
	}
	s.mu.Unlock()
	if c == nil {
		return
	}
	if rst {
		if tc, ok := c.(*net.TCPConn); ok {
			tc.SetLinger(0)
		}
	}
	c.Close()
}

func (s *sink) down() {
	s.mu.Lock()
	ln, pc := s.ln, s.pc
	s.mu.Unlock()
	if ln != nil {
		ln.Close()
	}
	if pc != nil {
		pc.Close()
	}
	s.closeCurrent(true)
}

func (s *sink) up() error {
	var err error
	for i := 0; i < 200; i++ {
		if err = s.open(s.port); err == nil {
			return nil
		}
		time.Sleep(5 * time.Millisecond)
	}
	return err
}

func (s *sink) shutdown() {
	s.down()
	s.mu.Lock()
	for _, c := range s.conns {
		c.c.Close()
	}
	s.mu.Unlock()
}

var nasty = []string{"%", "%%", "%s", "%d", "%v", "%!s(MISSING)", "%x%x%x", "100%", "%5.2f", "%[1]d", "%*d", "a%", "\\n", "\t", "\r", "\x00", "\x7f", "é", "\xff\xfe", "{}", "\"q\"", "%!(EXTRA"}

var sizeLadder = []int{100, 4095, 4096, 4097, 64, 9000, 18000, 17999, 18001, 36000, 36001, 8191, 8192, 8193, 1023, 1024, 1025, 2047, 2048, 2049, 511, 512, 513,
	255, 256, 257, 127, 128, 129, 16383, 16384, 16385, 32767, 32768, 32769, 65535, 65536, 65537, 131072, 40, 4096, 8192, 4096}

func genMsg(g *mon.RNG, scn, k int, content string, maxLen int) []byte {
	var sb bytes.Buffer
	fmt.Fprintf(&sb, `{"id":"%d-%d","v":"`, scn, k)
	n := g.Range(0, 60)
	switch content {
	case "sizes":
		// message k of a "sizes" scenario has EXACTLY the k-th length of the ladder: powers of two and their
		// neighbours, doublings of an odd size - the places where a reused or pre-sized line buffer is exactly full
		l := sizeLadder[k%len(sizeLadder)]
		if l > maxLen {
			l = maxLen - k%7
		}
		for sb.Len() < l-2 {
			sb.WriteByte(byte('a' + (sb.Len()+k)%26))
		}
		sb.WriteString(`"}`)
		return sb.Bytes()[:max(l, 24)]
	case "big":
		if g.Chance(1, 6) {
			n = g.Range(4096, 262144)
		}
	}
	if n > maxLen {
		n = maxLen
	}
	for sb.Len() < n+20 {
		switch {
		case content == "plain":
			sb.WriteByte(byte(g.Range('a', 'z')))
		case g.Chance(1, 3):
			sb.WriteString(nasty[g.Intn(len(nasty))])
		case g.Chance(1, 8):
			b := byte(g.U64())
			if b == '\n' {
				b = ' '
			}
			sb.WriteByte(b)
		default:
			sb.WriteByte(byte(g.Range(0x20, 0x7e)))
		}
	}
	if content != "plain" && g.Chance(1, 4) {
		sb.WriteString("%") // trailing percent
	} else {
		sb.WriteString(`"}`)
	}
	return sb.Bytes()
}

type result struct {
	Stalls, StallsThatBlockedAWrite int
	Pauses, IdlePeriods, Failovers  int
	Kind, What                      string
	Inconcl                         string
	Handed                          int
	Delivered                       int
	Lost                            int
	MaxGap                          int
	Conns                           int
	ErrCount                        uint64
}

type witness struct {
	Scenario scenario `json:"scenario"`
	Handed   []string `json:"handed_over"`
	Received []string `json:"received"`
	BadLine  string   `json:"offending_line_hex,omitempty"`
	Expected string   `json:"expected_line_hex,omitempty"`
}

var fileNo int64

func runScenario(sc scenario, dir string) (res result, wit witness) {
	wit.Scenario = sc
	g := mon.NewRNG(sc.Seed, "prod", sc.ID)
	s, err := newSink(sc.Proto)
	if err != nil {
		res.Inconcl = "cannot open sink: " + err.Error()
		return
	}
	defer s.shutdown()
	conf := filepath.Join(dir, fmt.Sprintf("mq-%d.conf", atomic.AddInt64(&fileNo, 1)))
	spelling := sc.Proto
	if sc.Spelling != "" {
		spelling = sc.Spelling // another name net.Dial takes for the same transport (tcp4, udp4)
	}
	sinkHost := "127.0.0.1"
	sinkName := fmt.Sprintf("sink-%d-%d.mq.verif.test", sc.ID, sc.Seed&0xffff)
	if sc.ByName {
		if err := dnsStart(); err != nil {
			res.Inconcl = "cannot start the DNS responder: " + err.Error()
			return
		}
		dnsSet(sinkName, [4]byte{127, 0, 0, 1})
		sinkHost = sinkName
	}
	os.WriteFile(conf, []byte(fmt.Sprintf("url: %s:%d\nprotocol: %s\nretry-max: %d\n", sinkHost, s.port, spelling, sc.Retry)), 0o644)
	defer os.Remove(conf)
	var ec uint64
	p := producer.NewProducer("rawSocket")
	p.MQConfigFile = conf
	p.MQErrorCount = &ec
	p.Logger = log.New(io.Discard, "", 0)
	if os.Getenv("PROD_DEBUG") != "" {
		p.Logger = log.New(os.Stderr, fmt.Sprintf("[scn %d] ", sc.ID), log.Lmicroseconds)
	}
	ch := make(chan []byte, sc.Backlog) // unbuffered by default: accepting hand-over k+1 means message k was fully processed
	p.Chan = ch
	p.Topic = "verif"
	done := make(chan error, 1)
	go func() { done <- p.Run() }()

	var all []handed
	maxLen := 300000
	if sc.Proto == "udp" {
		maxLen = 60000
	}
	var lastEC uint64
	sinkUp := true
	udpSent, udpBase := 0, 0
	handover := func(judged bool, j int, msg []byte) bool {
		k := len(all)
		if msg == nil {
			msg = genMsg(g, sc.ID, k, sc.Content, maxLen)
		}
		all = append(all, handed{K: k, Judged: judged, J: j, Msg: msg})
		select {
		case ch <- msg:
		case err := <-done:
			res.Inconcl = fmt.Sprintf("producer.Run returned early: %v", err)
			return false
		case <-time.After(60 * time.Second):
			res.Inconcl = "producer did not take a message for 60 s (wall-clock watchdog)"
			return false
		}
		if sc.Proto == "udp" && sinkUp && sc.Backlog == 0 {
			// pace: UDP has no flow control; do not let the sender outrun the sink's socket buffer
			udpSent++
			s.waitCount(udpSent+udpBase, 300*time.Millisecond)
			s.mu.Lock()
			udpBase = len(s.dgs) - udpSent // re-base on what really arrived, so that one loss costs one wait only
			s.mu.Unlock()
		}
		if e := atomic.LoadUint64(&ec); e < lastEC {
			res.Kind, res.What = "error-counter-decreased", fmt.Sprintf("MQ error counter went from %d to %d", lastEC, e)
		} else {
			lastEC = e
		}
		return true
	}
	// recovery points: judged index of the first judged message handed over once the sink was reachable again
	type window struct{ from, to int } // judged indices that MUST be delivered: [from,to)
	var must []window
	healthyFrom := 0
	j := 0
	fi := 0
	for j < sc.N || fi < len(sc.Faults) {
		if fi < len(sc.Faults) && sc.Faults[fi].After <= j {
			f := sc.Faults[fi]
			fi++
			must = append(must, window{healthyFrom, j})
			// barrier: a dummy message that the sink must have read before the fault lands, so that no
			// judged message is in mid-processing
			if !handover(false, -1, nil) {
				return
			}
			bk := len(all) - 1
			if !s.waitFor(sc.ID, bk, 20*time.Second) {
				res.Kind, res.What = "no-resumption", fmt.Sprintf("the barrier message handed over after judged message %d never reached the sink although the sink had been reachable for at least %d judged messages", j, j-healthyFrom)
				goto verdict
			}
			if f.IdleMs > 0 {
				// a quiet period on a healthy connection; the fault comes to a producer that is no longer young
				time.Sleep(time.Duration(f.IdleMs) * time.Millisecond)
				res.IdlePeriods++
			}
			switch f.Kind {
			case "close":
				s.closeCurrent(false)
			case "rst":
				s.closeCurrent(true)
			case "midline":
				s.mu.Lock()
				s.limit = 1000
				s.mu.Unlock()
				big := genMsg(g, sc.ID, len(all), "plain", maxLen)
				big = append(big[:len(big)-2], bytes.Repeat([]byte("x"), 200000)...)
				big = append(big, '"', '}')
				s.mu.Lock()
				nres := s.resets
				s.mu.Unlock()
				if !handover(false, -1, big) {
					return
				}
				// the fault is the sink's reset in the middle of this message: wait until it has happened,
				// so that the messages that follow are handed over after the fault (logical order)
				if !s.waitResets(nres+1, 20*time.Second) {
					res.Inconcl = "the sink never got to reset the connection mid-line"
					return
				}
			case "stall":
				// back-pressure: the sink stops reading, the producer's socket buffers fill until a write blocks in
				// the middle of a message; only then is the connection reset. Nothing handed over during the stall is
				// judged; what arrives afterwards must still be whole handed-over messages.
				s.setStall(true)
				blocked := false
				var pending chan bool
				for k := 0; k < 600 && !blocked; k++ {
					fill := genMsg(g, sc.ID, len(all), "plain", maxLen)
					fill = append(fill[:len(fill)-2], bytes.Repeat([]byte("y"), 60000)...)
					fill = append(fill, '"', '}')
					all = append(all, handed{K: len(all), Judged: false, J: -1, Msg: fill})
					pending = make(chan bool, 1)
					go func(m []byte, done chan bool) {
						select {
						case ch <- m:
							done <- true
						case <-time.After(60 * time.Second):
							done <- false
						}
					}(fill, pending)
					select {
					case ok := <-pending:
						pending = nil
						if !ok {
							res.Inconcl = "producer stopped taking messages during a stall"
							return
						}
					case <-time.After(250 * time.Millisecond):
						blocked = true // the producer sits in a write (or the hand-over before it): buffers are full
					}
				}
				if f.PauseMs > 0 {
					// a pause, not a failure: the sink keeps the connection, sleeps, and reads on. Nothing broke, so
					// whatever the producer did while it could not write (time out, retry) must not show in the stream
					time.Sleep(time.Duration(f.PauseMs) * time.Millisecond)
					s.setStall(false)
					res.Pauses++
				} else {
					s.closeCurrent(true)
					s.setStall(false)
				}
				if pending != nil {
					if ok := <-pending; !ok {
						res.Inconcl = "producer never came back after the stalled connection was reset"
						return
					}
				}
				res.Stalls++
				if blocked {
					res.StallsThatBlockedAWrite++
				}
			case "down", "failover":
				sinkUp = false
				s.down()
				if f.Kind == "failover" {
					// the sink's name now points to the standby address; the standby comes up after f.Down hand-overs
					dnsSet(sinkName, [4]byte{127, 0, 0, 2})
					s.mu.Lock()
					s.host = "127.0.0.2"
					s.mu.Unlock()
					res.Failovers++
				}
				for d := 0; d < f.Down && j < sc.N; d++ {
					if !handover(true, j, nil) {
						return
					}
					j++
				}
				// one more dummy so that the last "while down" message has been fully processed
				if !handover(false, -1, nil) {
					return
				}
				if err := s.up(); err != nil {
					res.Inconcl = "cannot reopen the sink port: " + err.Error()
					return
				}
				sinkUp = true
			}
			if f.Kind == "quiet" {
				healthyFrom = j // nothing happened to the sink: no message may be lost, and nothing else may arrive
				continue
			}
			healthyFrom = j + 4 // bounded gap: at most 4 judged messages may be lost after the sink is reachable again
			continue
		}
		if !handover(true, j, nil) {
			return
		}
		j++
	}
	must = append(must, window{healthyFrom, j})
	// sentinel: dummy messages at the end, the last of which the sink must see
	for k := 0; k < 6; k++ {
		if !handover(false, -1, nil) {
			return
		}
	}
	if !s.waitFor(sc.ID, len(all)-1, 20*time.Second) {
		if len(sc.Faults) == 0 || sc.N-sc.Faults[len(sc.Faults)-1].After >= 0 {
			res.Kind, res.What = "no-resumption", "the final message never reached the sink: delivery did not resume after the last fault (or stopped without one)"
		}
	}
verdict:
	close(ch)
	select {
	case <-done:
	case <-time.After(30 * time.Second):
		if res.Kind == "" {
			res.Inconcl = "producer did not return after its channel was closed (30 s watchdog)"
		}
	}
	time.Sleep(20 * time.Millisecond) // let the sink drain what is already in the kernel; the verdict below does not depend on it
	s.mu.Lock()
	if canaryMode && len(s.conns) > 0 && len(s.conns[0].buf) > 30 {
		s.conns[0].buf[25] ^= 0x01 // canary: what the sink recorded is altered; the oracle must notice
	}
	lines := s.lines()
	res.Conns = len(s.conns)
	s.mu.Unlock()
	res.Handed = len(all)
	res.ErrCount = atomic.LoadUint64(&ec)
	if os.Getenv("PROD_DEBUG") != "" {
		fmt.Fprintf(os.Stderr, "scenario done: handed %d errcount %d conns %d lines %d kind %s inconcl %s\n", len(all), res.ErrCount, res.Conns, len(lines), res.Kind, res.Inconcl)
		for i, c := range s.conns {
			fmt.Fprintf(os.Stderr, "  conn %d: %d octets\n", i, len(c.buf))
		}
	}
	for _, h := range all {
		m := fmt.Sprint(h.K)
		if h.Judged {
			m += "*"
		}
		wit.Handed = append(wit.Handed, m)
	}
	delivered := map[int]bool{}
	last := -1
	for _, l := range lines {
		m := idRe.FindSubmatch(l)
		if m == nil {
			wit.BadLine = mon.Hex(l[:min(len(l), 2000)])
			if res.Kind == "" {
				res.Kind, res.What = "corrupted-line", fmt.Sprintf("the sink received a line that is no handed-over message: %q", clip(string(l), 200))
			}
			continue
		}
		if from, _ := strconv.Atoi(string(m[1])); from != sc.ID && hasDown[from] {
			crossed.Store(from, sc.ID)
			crossed.Store(sc.ID, from)
			continue
		}
		k, _ := strconv.Atoi(string(m[2]))
		wit.Received = append(wit.Received, string(m[2]))
		if k >= len(all) {
			if res.Kind == "" {
				res.Kind, res.What = "corrupted-line", fmt.Sprintf("line with unknown id %d", k)
			}
			continue
		}
		want := append(append([]byte{}, all[k].Msg...), '\n')
		if !bytes.Equal(l, want) {
			wit.BadLine, wit.Expected = mon.Hex(l[:min(len(l), 2000)]), mon.Hex(want[:min(len(want), 2000)])
			if res.Kind == "" {
				kind := "modified-message"
				if bytes.Equal(l, all[k].Msg) {
					kind = "missing-newline"
				}
				res.Kind, res.What = kind, fmt.Sprintf("message %d arrived as %q, handed over as %q", k, clip(string(l), 160), clip(string(want), 160))
			}
			continue
		}
		if delivered[k] {
			if res.Kind == "" {
				res.Kind, res.What = "duplicate", fmt.Sprintf("message %d was delivered twice", k)
			}
			continue
		}
		if k < last {
			if res.Kind == "" {
				res.Kind, res.What = "reordered", fmt.Sprintf("message %d arrived after message %d", k, last)
			}
		}
		last = k
		delivered[k] = true
	}
	res.Delivered = len(delivered)
	jk := map[int]int{}
	for _, h := range all {
		if h.Judged {
			jk[h.J] = h.K
		}
	}
	gap := 0
	for jj := 0; jj < j; jj++ {
		if !delivered[jk[jj]] {
			res.Lost++
			gap++
			if gap > res.MaxGap {
				res.MaxGap = gap
			}
		} else {
			gap = 0
		}
	}
	if res.Kind == "" {
		for _, w := range must {
			for jj := w.from; jj < w.to; jj++ {
				if !delivered[jk[jj]] {
					res.Kind = "lost-while-sink-reachable"
					res.What = fmt.Sprintf("judged message %d (hand-over %d) was never delivered although the sink had been reachable for more than 4 messages (must-deliver window %d..%d)", jj, jk[jj], w.from, w.to)
					break
				}
			}
			if res.Kind != "" {
				break
			}
		}
	}
	return
}

func clip(s string, n int) string {
	if len(s) > n {
		return s[:n] + "…"
	}
	return s
}

func scenarios(seed int64, thorough bool) []scenario {
	var out []scenario
	add := func(sc scenario) { sc.ID = len(out) + 1; sc.Seed = seed; out = append(out, sc) }
	// no fault, a backlog on a buffered channel (the collector's own channels have capacity 1000): whatever the
	// producer does with queued messages, each must still be delivered on its own, once, in order
	for _, proto := range []string{"tcp", "udp"} {
		for _, content := range []string{"plain", "percent", "mixed"} {
			for _, n := range []int{40, 150} {
				add(scenario{Proto: proto, Retry: 2, N: n, Content: content, Backlog: 1000})
			}
		}
	}
	// no fault: content and counts
	for _, proto := range []string{"tcp", "udp"} {
		for _, content := range []string{"plain", "percent", "big", "mixed"} {
			for _, n := range []int{1, 2, 50, 400} {
				add(scenario{Proto: proto, Retry: 2, N: n, Content: content})
			}
		}
	}
	pos := []int{0, 1, 2, 5, 17}
	retries := []int{0, 1, 2, 5}
	downs := []int{0, 1, 5, 50}
	if thorough {
		pos = []int{0, 1, 2, 3, 4, 5, 8, 17, 40}
	}
	for _, kind := range []string{"close", "rst", "midline", "stall"} {
		for _, at := range pos {
			for _, r := range retries {
				add(scenario{Proto: "tcp", Retry: r, N: at + 25, Content: "percent", Faults: []fault{{After: at, Kind: kind}}})
			}
		}
	}
	// no fault at all, but message lengths that fill buffers exactly
	for _, proto := range []string{"tcp", "udp"} {
		add(scenario{Proto: proto, Retry: 2, N: len(sizeLadder), Content: "sizes"})
	}
	// the transport under its other names: "tcp4" / "udp4" are what a dual-stack-wary operator writes
	for _, kind := range []string{"close", "rst", "midline"} {
		for _, r := range []int{0, 2} {
			add(scenario{Proto: "tcp", Spelling: "tcp4", Retry: r, N: 5 + 25, Content: "plain", Faults: []fault{{After: 5, Kind: kind}}})
		}
	}
	add(scenario{Proto: "udp", Spelling: "udp4", Retry: 2, N: 30, Content: "plain", Faults: []fault{{After: 5, Kind: "down", Down: 5}}})
	// long pauses of a sink that stays connected (longer than any plausible write timeout)
	for _, r := range []int{0, 2} {
		add(scenario{Proto: "tcp", Retry: r, N: 5 + 25, Content: "plain", Faults: []fault{{After: 5, Kind: "stall", PauseMs: 6500}}})
	}
	// the sink configured by name: the name keeps its address across a close / a down period, or - fail-over - points to
	// a standby address (127.0.0.2, same port) from the fault on; delivery must resume at whatever the name resolves to
	for _, r := range []int{0, 2} {
		add(scenario{Proto: "tcp", ByName: true, Retry: r, N: 5 + 25, Content: "plain", Faults: []fault{{After: 5, Kind: "close"}}})
		add(scenario{Proto: "tcp", ByName: true, Retry: r, N: 5 + 3 + 25, Content: "plain", Faults: []fault{{After: 5, Kind: "down", Down: 3}}})
		add(scenario{Proto: "tcp", ByName: true, Retry: r, N: 5 + 3 + 25, Content: "plain", Faults: []fault{{After: 5, Kind: "failover", Down: 3}}})
		add(scenario{Proto: "tcp", ByName: true, Retry: r, N: 5 + 25, Content: "plain", Faults: []fault{{After: 5, Kind: "failover", Down: 0}}})
	}
	// faults that meet a producer which has been running for a while (longer than the usual 5/10 s connect,
	// keep-alive and idle time-outs): a quiet quarter of a minute, then the sink closes / goes away and comes back
	for _, kind := range []string{"close", "rst", "down"} {
		add(scenario{Proto: "tcp", Retry: 2, N: 5 + 25 + 3, Content: "plain", Faults: []fault{{After: 5, Kind: kind, Down: 3, IdleMs: 12500}}})
	}
	add(scenario{Proto: "udp", Retry: 2, N: 5 + 25 + 3, Content: "plain", Faults: []fault{{After: 5, Kind: "down", Down: 3, IdleMs: 12500}}})
	// ... and a quiet period with no fault at all: what follows it on the healthy connection must be the handed-over
	// messages and nothing else (round 14, C14-m: an "idle probe" line written ahead of the next message)
	for _, proto := range []string{"tcp", "udp"} {
		add(scenario{Proto: proto, Retry: 2, N: 5 + 10, Content: "plain", Faults: []fault{{After: 5, Kind: "quiet", IdleMs: 12500}, {After: 9, Kind: "quiet", IdleMs: 10}}})
	}
	for _, proto := range []string{"tcp", "udp"} {
		for _, at := range pos {
			for _, r := range retries {
				for _, d := range downs {
					add(scenario{Proto: proto, Retry: r, N: at + d + 25, Content: "mixed", Faults: []fault{{After: at, Kind: "down", Down: d}}})
				}
			}
		}
	}
	// fault sequences
	g := mon.NewRNG(seed, "prod-seq", 0)
	nseq := 40
	if thorough {
		nseq = 2000
	}
	for i := 0; i < nseq; i++ {
		sc := scenario{Proto: "tcp", Retry: retries[g.Intn(4)], Content: []string{"plain", "percent", "big", "mixed"}[g.Intn(4)]}
		at := 0
		for k := g.Range(2, 5); k > 0; k-- {
			at += g.Range(12, 30) // far enough apart for delivery to have resumed
			f := fault{After: at, Kind: []string{"close", "rst", "down", "midline", "stall"}[g.Intn(5)]}
			if f.Kind == "down" {
				f.Down = downs[g.Intn(4)]
				at += f.Down
			}
			sc.Faults = append(sc.Faults, f)
		}
		sc.N = at + 25
		add(sc)
	}
	return out
}

func main() {
	args := mon.ParseArgs()
	run := mon.NewRun("C14", "prodcheck", "fault_enumeration")
	dir := os.Getenv("VERIF_RUN")
	if dir == "" {
		dir = os.TempDir()
	}
	os.MkdirAll(dir, 0o755)
	if args.Replay != "" {
		d, err := mon.LoadReplay(args.Replay)
		if err != nil {
			run.HarnessError(err.Error())
			run.Finish()
		}
		var w witness
		json.Unmarshal(d.Case, &w)
		hits := 0
		for i := 0; i < 5; i++ {
			r, wit := runScenario(w.Scenario, dir)
			run.Eval(1)
			if r.Kind != "" {
				hits++
				run.Violation(d.Signature, r.What, wit)
			}
		}
		run.DistinctBulk(2)
		fmt.Printf("replay: %d of 5 runs of the scenario violated\n", hits)
		run.Finish()
	}
	scs := scenarios(run.Seed, run.Thorough())
	var msgs, faults, lost, delivered, stalls, stallsBlocked int64
	var maxGap, idles, failovers int64
	var mu sync.Mutex
	kinds := map[string]int{}
	sem := make(chan struct{}, 24)
	var wg sync.WaitGroup
	var pending []func()
	for _, sc := range scs {
		for _, f := range sc.Faults {
			if f.Kind == "down" || f.Kind == "failover" {
				hasDown[sc.ID] = true
			}
		}
	}
	for _, sc := range scs {
		wg.Add(1)
		sem <- struct{}{}
		go func(sc scenario) {
			defer wg.Done()
			defer func() { <-sem }()
			r, wit := runScenario(sc, dir)
			run.Eval(1)
			atomic.AddInt64(&msgs, int64(r.Handed))
			atomic.AddInt64(&faults, int64(len(sc.Faults)))
			atomic.AddInt64(&lost, int64(r.Lost))
			atomic.AddInt64(&stalls, int64(r.Stalls))
			atomic.AddInt64(&idles, int64(r.IdlePeriods))
			atomic.AddInt64(&failovers, int64(r.Failovers))
			atomic.AddInt64(&stallsBlocked, int64(r.StallsThatBlockedAWrite))
			atomic.AddInt64(&delivered, int64(r.Delivered))
			mu.Lock()
			if int64(r.MaxGap) > maxGap {
				maxGap = int64(r.MaxGap)
			}
			for _, f := range sc.Faults {
				kinds[sc.Proto+"/"+f.Kind]++
			}
			mu.Unlock()
			desc := fmt.Sprintf("%s|r%d|n%d|%s|%v", sc.Proto, sc.Retry, sc.N, sc.Content, sc.Faults)
			run.Distinct(desc)
			if r.Inconcl != "" {
				run.Inconclusive(fmt.Sprintf("scenario %d (%s): %s", sc.ID, desc, r.Inconcl))
				return
			}
			if r.Kind != "" {
				sig := "prod:" + sc.Proto + ":" + r.Kind
				mu.Lock()
				pending = append(pending, func() {
					if other, ok := crossed.Load(sc.ID); ok {
						run.Inconclusive(fmt.Sprintf("scenario %d (%s): its producer and that of scenario %v met at one sink port (a port number re-used by the kernel while a sink was down): %s not judged", sc.ID, desc, other, r.Kind))
						return
					}
					run.Violation(sig, fmt.Sprintf("scenario %d (%s): %s", sc.ID, desc, r.What), wit)
				})
				mu.Unlock()
			}
			if sc.ID == 40 || sc.ID == 120 {
				run.Sample(map[string]interface{}{"scenario": sc, "handed_over": r.Handed, "delivered": r.Delivered, "lost": r.Lost, "connections": r.Conns, "mq_error_count": r.ErrCount})
			}
		}(sc)
	}
	wg.Wait()
	// verdicts are reported once every scenario has read its sink: a crossing is only known then
	for _, f := range pending {
		f()
	}
	ncross := 0
	crossed.Range(func(_, _ interface{}) bool { ncross++; return true })
	run.Set("scenarios_whose_producer_met_another_scenarios_sink", int64(ncross))
	natsCheck(run, dir)
	// canary: the stream oracle must notice a modified line
	{
		sc := scenario{ID: 999999, Proto: "tcp", Retry: 2, N: 3, Content: "plain", Seed: run.Seed}
		canaryMode = true
		r, _ := runScenario(sc, dir)
		canaryMode = false
		if r.Kind != "modified-message" && r.Kind != "corrupted-line" {
			run.HarnessError("canary: the stream oracle accepted a modified line (" + r.Kind + r.Inconcl + ")")
		}
	}
	run.Set("scenarios", len(scs))
	run.Set("messages_handed_over", msgs)
	run.Set("messages_delivered", delivered)
	run.Set("judged_messages_lost_around_faults", lost)
	run.Set("longest_run_of_lost_judged_messages", maxGap)
	run.Set("faults_injected", faults)
	run.Set("faults_by_kind", kinds)
	run.Set("stalls_injected", stalls)
	run.Set("faults_met_by_a_producer_older_than_12_s", idles)
	run.Set("fail_overs_of_a_sink_configured_by_name", failovers)
	run.Set("stalls_in_which_a_producer_write_blocked_mid_message", stallsBlocked)
	run.Set("backends_not_reached", []string{"kafka (sarama)", "kafka (segmentio)", "nsq: need brokers that do not exist in this sandbox"})
	run.SetRule("real producer.NewProducer('rawSocket') + config file + Run() against an in-process sink. Fault enumeration: {graceful close, RST, mid-line reset, stall (sink stops reading until a producer write blocks mid-message, then RST), pause (the same, but the sink sleeps 6.5 s and then reads on over the same connection), listener+connection down} × fault position {before first, after message 1,2,5,17} × downtime {0,1,5,50 hand-overs} × retry-max {0,1,2,5}, tcp and udp (also configured as tcp4 / udp4), plus close / RST / down after a quiet 12.5 s (a producer that is no longer young), plus a sink configured by NAME (resolved by an in-process DNS responder) that keeps its address or fails over to a standby address at the fault, plus seeded sequences of 2-5 faults; contents with every % verb, %%, trailing %, binary octets, up to 256 KiB, and a fault-free ladder of exact lengths (2^k and neighbours, doublings). Oracle over the sink's byte streams (connections in accept order): every complete line is byte-identical to a handed-over message plus newline, no duplicates, no inversions, every message handed over while the sink had been reachable for more than 4 messages is present, delivery resumes after every fault. distinct = scenario descriptor")
	run.Assume("bounded gap = at most 4 judged messages after the sink is reachable again (derivation in DESIGN.md C14)")
	run.Assume("loopback TCP delivers what the kernel accepted within 20 s (watchdog for 'never arrived')")
	run.Finish()
}

var canaryMode bool

func strOrEmpty(s string) string { return strings.TrimSpace(s) }
