package main

import (
	"bytes"
	"fmt"
	"io"
	"log"
	"os"
	"path/filepath"
	"time"

	natsd "github.com/nats-io/nats-server/v2/server"
	nats "github.com/nats-io/nats.go"

	"github.com/EdgeCast/vflow/producer"

	"verif/harness/mon"
)

// natsCheck: content oracle for the NATS backend against an embedded nats-server (no fault injection).
func natsCheck(run *mon.Run, dir string) {
	opts := &natsd.Options{Host: "127.0.0.1", Port: -1, NoLog: true, NoSigs: true}
	srv, err := natsd.NewServer(opts)
	if err != nil {
		run.Inconclusive("embedded nats-server cannot start: " + err.Error())
		return
	}
	go srv.Start()
	defer srv.Shutdown()
	if !srv.ReadyForConnections(10 * time.Second) {
		run.Inconclusive("embedded nats-server not ready")
		return
	}
	url := srv.ClientURL()
	nc, err := nats.Connect(url)
	if err != nil {
		run.Inconclusive("nats client: " + err.Error())
		return
	}
	defer nc.Close()
	var got [][]byte
	recv := make(chan []byte, 100000)
	nc.Subscribe("verif.nats", func(m *nats.Msg) { recv <- append([]byte{}, m.Data...) })
	nc.Flush()
	conf := filepath.Join(dir, "mq-nats.conf")
	os.WriteFile(conf, []byte("url: "+url+"\n"), 0o644)
	var ec uint64
	p := producer.NewProducer("nats")
	p.MQConfigFile = conf
	p.MQErrorCount = &ec
	p.Logger = log.New(io.Discard, "", 0)
	ch := make(chan []byte)
	p.Chan = ch
	p.Topic = "verif.nats"
	done := make(chan error, 1)
	go func() { done <- p.Run() }()
	g := mon.NewRNG(run.Seed, "nats", 0)
	n := 3000
	var sent [][]byte
	for k := 0; k < n; k++ {
		m := genMsg(g, 777, k, []string{"plain", "percent", "big", "mixed"}[k%4], 200000)
		sent = append(sent, m)
		select {
		case ch <- m:
		case err := <-done:
			run.Inconclusive(fmt.Sprintf("nats producer returned early: %v", err))
			return
		case <-time.After(30 * time.Second):
			run.Inconclusive("nats producer stopped taking messages")
			return
		}
	}
	close(ch)
	<-done
	deadline := time.After(20 * time.Second)
	for len(got) < n {
		select {
		case m := <-recv:
			got = append(got, m)
		case <-deadline:
			goto judge
		}
	}
judge:
	run.Eval(1)
	run.Distinct("nats|content")
	run.Set("nats_messages_published", n)
	run.Set("nats_messages_received", len(got))
	if len(got) != n {
		run.Violation("prod:nats:lost", fmt.Sprintf("%d of %d messages arrived at the NATS subscriber", len(got), n), nil)
		return
	}
	for i := range got {
		if !bytes.Equal(got[i], sent[i]) {
			run.Violation("prod:nats:modified-or-reordered", fmt.Sprintf("message %d arrived as %q, handed over as %q", i, clip(string(got[i]), 120), clip(string(sent[i]), 120)), nil)
			return
		}
	}
}
