package main

import (
	"context"
	"encoding/binary"
	"net"
	"strings"
	"sync"
)

// A resolver of the harness's own: scenarios that configure the sink by NAME need the name to resolve, and the
// fail-over scenario needs it to resolve differently after the fault. The process's default resolver is pointed at
// an in-process DNS responder that knows exactly the names the scenarios registered (A records, TTL 0; any other
// question gets an empty answer). IP-literal URLs never reach it.
var (
	dnsMu    sync.Mutex
	dnsNames = map[string][4]byte{}
	dnsOnce  sync.Once
	dnsErr   error
	dnsQs    int64
)

func dnsSet(name string, ip [4]byte) {
	dnsMu.Lock()
	dnsNames[strings.ToLower(strings.TrimSuffix(name, "."))] = ip
	dnsMu.Unlock()
}

func dnsStart() error {
	dnsOnce.Do(func() {
		pc, err := net.ListenPacket("udp4", "127.0.0.1:0")
		if err != nil {
			dnsErr = err
			return
		}
		addr := pc.LocalAddr().String()
		net.DefaultResolver = &net.Resolver{PreferGo: true, Dial: func(ctx context.Context, network, address string) (net.Conn, error) {
			var d net.Dialer
			return d.DialContext(ctx, "udp4", addr)
		}}
		go func() {
			b := make([]byte, 1500)
			for {
				n, from, err := pc.ReadFrom(b)
				if err != nil {
					return
				}
				if n < 12 {
					continue
				}
				q := b[:n]
				// question name
				i, name := 12, ""
				for i < n && q[i] != 0 {
					l := int(q[i])
					if i+1+l > n {
						break
					}
					name += string(q[i+1:i+1+l]) + "."
					i += 1 + l
				}
				if i+5 > n {
					continue
				}
				qtype := binary.BigEndian.Uint16(q[i+1:])
				qend := i + 5
				dnsMu.Lock()
				ip, ok := dnsNames[strings.ToLower(strings.TrimSuffix(name, "."))]
				dnsQs++
				dnsMu.Unlock()
				r := make([]byte, 0, 128)
				r = append(r, q[0], q[1], 0x81, 0x80, 0, 1, 0, 0, 0, 0, 0, 0)
				r = append(r, q[12:qend]...)
				if ok && qtype == 1 {
					r[7] = 1
					r = append(r, 0xc0, 0x0c, 0, 1, 0, 1, 0, 0, 0, 0, 0, 4, ip[0], ip[1], ip[2], ip[3])
				} else if !ok {
					r[3] = 0x83 // NXDOMAIN
				}
				pc.WriteTo(r, from)
			}
		}()
	})
	return dnsErr
}
