package main

import (
	"bufio"
	"encoding/json"
	"fmt"
	"net"
	"os"
	"os/exec"
	"path/filepath"
	"regexp"
	"sort"
	"strings"
	"sync"
	"sync/atomic"
	"syscall"
	"time"

	"github.com/anishathalye/porcupine"

	"github.com/EdgeCast/vflow/ipfix"
	netflow9 "github.com/EdgeCast/vflow/netflow/v9"

	"verif/harness/mon"
	"verif/harness/wire"
)

// ---------------------------------------------------------------- child: workload + recording

type cop struct {
	H    int    `json:"h"` // history number inside the child
	G    int    `json:"g"` // goroutine (client)
	Key  int    `json:"key"`
	Op   string `json:"op"` // w | r | get | dump (one per key after loading the file)
	Arg  int    `json:"arg"`
	Call int64  `json:"call"`
	Ret  int64  `json:"ret"`
	Out  int    `json:"out"` // version observed, -1 = none, -2 = not a complete definition
	Note string `json:"note,omitempty"`
}

type concKey struct {
	Addr []byte
	ID   uint16
	Opt  bool // this exporter announces an options template (scope + option fields, 0-2 extra option fields)
}

// verTemplateFor: the definition that encodes version v for key k.
func verTemplateFor(k concKey, v int) *wire.Template {
	if !k.Opt {
		return verTemplate(k.ID, v)
	}
	// versions 3k, 3k+1, 3k+2 share their first two fields and differ only in having 0, 1 or 2 further option fields:
	// each is an exact extension of the one before - and still another definition
	w := v / 3
	t := &wire.Template{ID: k.ID, Options: true,
		Scope:  []wire.Field{{ID: elemA, Len: uint16(w%vMod + 1), Type: "octetArray"}},
		Fields: []wire.Field{{ID: elemB, Len: uint16(w/vMod + 1), Type: "octetArray"}}}
	for j := 0; j < v%3; j++ {
		t.Fields = append(t.Fields, wire.Field{ID: 4, Len: 1, Type: "unsigned8"})
	}
	return t
}

func tplSetOf(proto string, ts ...*wire.Template) wire.Set {
	s := wire.Set{Kind: wire.SetTemplate, Templates: ts}
	if ts[0].Options {
		s.Kind = wire.SetOptTemplate
	}
	if proto == "nf9" {
		s.Pad = (4 - wire.SetLen(&s)%4) % 4
	}
	return s
}

const (
	elemA = 210 // paddingOctets, octetArray
	elemB = 313 // ipHeaderPacketSection, octetArray
	vMod  = 250
)

func verTemplate(id uint16, v int) *wire.Template {
	return &wire.Template{ID: id, Fields: []wire.Field{
		{ID: elemA, Len: uint16(v%vMod + 1), Type: "octetArray"},
		{ID: elemB, Len: uint16(v/vMod + 1), Type: "octetArray"}}}
}

func verOf(a, b int) int { return (b-1)*vMod + (a - 1) }

type cacheAPI struct {
	proto string
	ic    ipfix.MemCache
	nc    netflow9.MemCache
	irpc  *ipfix.IRPC
}

func newCacheAPI(proto, file string) *cacheAPI {
	c := &cacheAPI{proto: proto}
	if proto == "ipfix" {
		c.ic = ipfix.GetCache(file)
		c.irpc = ipfix.NewRPC(c.ic)
	} else {
		c.nc = netflow9.GetCache(file)
	}
	return c
}

// annHeader gives an announcement's message header. The header's clock fields (IPFIX export time; v9 system up-time
// and UNIX seconds) are the exporter's business: for every second key they run BACKWARDS from version to version (a
// stepped clock, a reboot), for the others forwards - the order of announcements is the order in which they arrive.
func annHeader(k concKey, v int) []uint32 {
	if k.ID%2 == 0 {
		t := uint32(2000000000 - 3600*v)
		return []uint32{t, t, 3, 4}
	}
	t := uint32(1000000000 + 3600*v)
	return []uint32{t, t, 3, 4}
}

func (c *cacheAPI) write(k concKey, v int) {
	b, _ := wire.EncodeFlow(c.proto, annHeader(k, v), []wire.Set{tplSetOf(c.proto, verTemplateFor(k, v))})
	if c.proto == "ipfix" {
		ipfix.NewDecoder(net.IP(k.Addr), b).Decode(c.ic)
	} else {
		netflow9.NewDecoder(net.IP(k.Addr), b).Decode(c.nc)
	}
}

// writeSet announces version v for key k in a template set that carries two more templates of the same exporter
// (ids k.ID+1000 and k.ID+2000, never looked up): exporters announce several templates per set, and the cache may
// treat a set as a unit.
func (c *cacheAPI) writeSet(k concKey, v int) {
	k2, k3 := k, k
	k2.ID, k3.ID = k.ID+2000, k.ID+1000
	ts := []*wire.Template{verTemplateFor(k2, v), verTemplateFor(k, v), verTemplateFor(k3, v)}
	b, _ := wire.EncodeFlow(c.proto, annHeader(k, v), []wire.Set{tplSetOf(c.proto, ts...)})
	if c.proto == "ipfix" {
		ipfix.NewDecoder(net.IP(k.Addr), b).Decode(c.ic)
	} else {
		netflow9.NewDecoder(net.IP(k.Addr), b).Decode(c.nc)
	}
}

var dataBody = func() []byte {
	b := make([]byte, 600)
	for i := range b {
		b[i] = byte(i)
	}
	return b
}()

// read decodes a data set for the key and identifies the version from the shape of the first record.
func (c *cacheAPI) read(k concKey) (int, string) {
	b, _ := wire.EncodeFlow(c.proto, []uint32{1, 2, 3, 4}, []wire.Set{{Kind: wire.SetRaw, SetID: k.ID, RawBody: dataBody}})
	type fld struct {
		id uint16
		n  int
	}
	var first []fld
	var errText string
	if c.proto == "ipfix" {
		msg, err := ipfix.NewDecoder(net.IP(k.Addr), b).Decode(c.ic)
		if err != nil {
			errText = err.Error()
		}
		if msg != nil && len(msg.DataSets) > 0 {
			for _, f := range msg.DataSets[0] {
				bb, _ := f.Value.([]byte)
				first = append(first, fld{f.ID, len(bb)})
			}
		}
	} else {
		msg, err := netflow9.NewDecoder(net.IP(k.Addr), b).Decode(c.nc)
		if err != nil {
			errText = err.Error()
		}
		if msg != nil && len(msg.DataSets) > 0 {
			for _, f := range msg.DataSets[0] {
				bb, _ := f.Value.([]byte)
				first = append(first, fld{f.ID, len(bb)})
			}
		}
	}
	if first == nil {
		if strings.Contains(errText, "unknown") {
			return -1, ""
		}
		return -2, "no record and no 'unknown template' report: " + errText
	}
	if len(first) < 2 || first[0].id != elemA || first[1].id != elemB || first[0].n < 1 || first[0].n > vMod || first[1].n < 1 {
		return -2, fmt.Sprintf("record shape %v matches no announced definition", first)
	}
	v := verOf(first[0].n, first[1].n)
	if k.Opt {
		if len(first) > 4 {
			return -2, fmt.Sprintf("record shape %v matches no announced definition", first)
		}
		return 3*v + len(first) - 2, ""
	}
	if len(first) != 2 {
		return -2, fmt.Sprintf("record shape %v matches no announced definition", first)
	}
	return v, ""
}

func (c *cacheAPI) get(k concKey) (int, string) {
	var tr ipfix.TemplateRecord
	if err := c.irpc.Get(ipfix.RPCRequest{ID: k.ID, IP: net.IP(k.Addr)}, &tr); err != nil {
		return -1, ""
	}
	if k.Opt {
		if tr.TemplateID != k.ID || len(tr.ScopeFieldSpecifiers) != 1 || len(tr.FieldSpecifiers) < 1 ||
			tr.ScopeFieldSpecifiers[0].ElementID != elemA || tr.FieldSpecifiers[0].ElementID != elemB {
			return -2, fmt.Sprintf("template record %+v matches no announced definition", tr)
		}
		v := verOf(int(tr.ScopeFieldSpecifiers[0].Length), int(tr.FieldSpecifiers[0].Length))
		if len(tr.FieldSpecifiers) > 3 {
			return -2, fmt.Sprintf("template record %+v matches no announced definition", tr)
		}
		return 3*v + len(tr.FieldSpecifiers) - 1, ""
	}
	if tr.TemplateID != k.ID || tr.FieldCount != 2 || len(tr.FieldSpecifiers) != 2 || len(tr.ScopeFieldSpecifiers) != 0 ||
		tr.FieldSpecifiers[0].ElementID != elemA || tr.FieldSpecifiers[1].ElementID != elemB {
		return -2, fmt.Sprintf("template record %+v matches no announced definition", tr)
	}
	return verOf(int(tr.FieldSpecifiers[0].Length), int(tr.FieldSpecifiers[1].Length)), ""
}

func (c *cacheAPI) dump(file string) error {
	if c.proto == "ipfix" {
		return c.ic.Dump(file)
	}
	return c.nc.Dump(file)
}

// concChild runs histories [from,to) and writes their operations as JSON lines.
var concOpsDone int64

func concChild(a mon.Args) {
	var seed int64
	var from, to int
	fmt.Sscan(a.Rest["seed"], &seed)
	fmt.Sscan(a.Rest["from"], &from)
	fmt.Sscan(a.Rest["to"], &to)
	dir := a.Rest["dir"]
	out, err := os.Create(a.Rest["out"])
	if err != nil {
		fmt.Fprintln(os.Stderr, err)
		os.Exit(3)
	}
	w := bufio.NewWriter(out)
	enc := json.NewEncoder(w)
	// operations that never return: a goroutine parked inside cache code while nothing else moves
	mon.WatchParked(func() int64 { return atomic.LoadInt64(&concOpsDone) }, 8*time.Second, func(state, site string) {
		fmt.Fprintf(os.Stderr, "PARKED [%s] in %s after %d operations of histories %d..%d\n", state, site, atomic.LoadInt64(&concOpsDone), from, to)
		os.Exit(98)
	})
	for h := from; h < to; h++ {
		g := mon.NewRNG(seed, "conc", h)
		proto := []string{"ipfix", "nf9"}[h%2]
		api := newCacheAPI(proto, "")
		nk := g.Range(2, 8)
		var keys []concKey
		for i := 0; i < nk; i++ {
			k := concKey{ID: uint16(256 + g.Intn(3))}
			if g.Bool() {
				k.Addr = fullCap([]byte{10, 0, byte(h), byte(i)})
			} else {
				ad := make([]byte, 16)
				ad[10], ad[11] = 0xff, 0xff
				ad[12], ad[13], ad[14], ad[15] = 10, 1, byte(h), byte(i)
				k.Addr = fullCap(ad)
			}
			k.Opt = i%2 == 1
			keys = append(keys, k)
		}
		if h%4 == 3 {
			// two exporters whose keys a carelessly derived cache key maps onto one entry (the pairs of the C04 histories):
			// under concurrency the two must stay two registers as well (round 14, C10-m)
			ap := aliasPairs()
			p := ap[(h/4)%len(ap)]
			keys = []concKey{{Addr: fullCap(p[0].Addr), ID: p[0].ID}, {Addr: fullCap(p[1].Addr), ID: p[1].ID, Opt: g.Bool()}}
			nk = len(keys)
		}
		// many short histories beat one enormous one: linearizability checking is NP-complete and its
		// cost climbs steeply with the concurrency per key
		ng := g.Range(4, 12)
		if g.Chance(1, 4) {
			ng = g.Range(12, 32)
		}
		opsPer := g.Range(150, 700) / ng
		if opsPer < 8 {
			opsPer = 8
		}
		overlapping := g.Chance(2, 3)
		var vers []int64 = make([]int64, nk) // next version per key
		start := time.Now()
		now := func() int64 { return time.Since(start).Nanoseconds() }
		var mu sync.Mutex
		var ops []cop
		var wg sync.WaitGroup
		var dumpNo int64
		for gi := 0; gi < ng; gi++ {
			wg.Add(1)
			gg := mon.NewRNG(seed, fmt.Sprintf("conc-g-%d", h), gi)
			role := gg.Intn(10) // 0-3 mostly writer, 4-7 mostly reader, 8 getter, 9 dumper
			go func(gi int) {
				defer wg.Done()
				local := make([]cop, 0, opsPer)
				for n := 0; n < opsPer; n++ {
					ki := gg.Intn(nk)
					if !overlapping {
						ki = gi % nk
					}
					k := keys[ki]
					r := gg.Intn(100)
					var kind string
					switch {
					case role <= 3:
						kind = pickOp(r, 70, 25, 3, 2)
					case role <= 7:
						kind = pickOp(r, 20, 70, 6, 4)
					case role == 8:
						kind = pickOp(r, 10, 20, 65, 5)
					default:
						kind = pickOp(r, 15, 15, 5, 65)
					}
					if kind == "get" && proto != "ipfix" {
						kind = "r"
					}
					o := cop{H: h, G: gi, Key: ki, Op: kind}
					switch kind {
					case "w":
						v := int(atomic.AddInt64(&vers[ki], 1)) // unique per key: reads identify their write
						o.Arg = v
						o.Call = now()
						if v%2 == 0 {
							api.writeSet(k, v)
						} else {
							api.write(k, v)
						}
						o.Ret = now()
					case "r":
						o.Call = now()
						o.Out, o.Note = api.read(k)
						o.Ret = now()
					case "get":
						o.Call = now()
						o.Out, o.Note = api.get(k)
						o.Ret = now()
					case "dump":
						dn := atomic.AddInt64(&dumpNo, 1)
						if dn > 40 {
							continue
						}
						o.Key = -1
						o.Arg = int(dn)
						f := filepath.Join(dir, fmt.Sprintf("h%d.d%d.json", h, dn))
						o.Call = now()
						err := api.dump(f)
						o.Ret = now()
						if err != nil {
							o.Note = "dump error: " + err.Error()
						}
					}
					local = append(local, o)
					atomic.AddInt64(&concOpsDone, 1)
				}
				mu.Lock()
				ops = append(ops, local...)
				mu.Unlock()
			}(gi)
		}
		wg.Wait()
		// every dump contributes one read per key, taken somewhere inside the dump's interval
		var extra []cop
		for _, o := range ops {
			if o.Op != "dump" {
				continue
			}
			f := filepath.Join(dir, fmt.Sprintf("h%d.d%d.json", h, o.Arg))
			loaded := newCacheAPI(proto, f)
			for ki, k := range keys {
				v, note := loaded.read(k)
				extra = append(extra, cop{H: h, G: o.G, Key: ki, Op: "dumpread", Arg: o.Arg, Call: o.Call, Ret: o.Ret, Out: v, Note: note})
			}
			os.Remove(f)
		}
		for _, o := range append(ops, extra...) {
			enc.Encode(o)
		}
		enc.Encode(cop{H: h, G: -1, Op: "end", Arg: nk, Note: fmt.Sprintf("%s goroutines=%d opsPer=%d overlapping=%v", proto, ng, opsPer, overlapping)})
		w.Flush()
	}
	w.Flush()
	out.Close()
	os.Exit(0)
}

// agedOut is what the aged-entries child reports.
type agedOut struct {
	Proto           string   `json:"proto"`
	Keys            int      `json:"keys"`
	Rounds          int      `json:"rounds"`
	Reannouncements int64    `json:"identical_reannouncements"`
	Lookups         int64    `json:"lookups"`
	Bad             []string `json:"bad,omitempty"`
}

// concAgedChild: cache entries carry the time of their announcement. Exporters repeat their templates
// unchanged for days, so "the same definition again, seconds later, from many workers at once" is the
// everyday concurrent operation on an entry - and one that no history shorter than a second ever
// produces. All keys are announced once; then, around each of three wall-clock second boundaries,
// 16 goroutines re-announce the SAME definitions and look them up. Every lookup must still see the
// key's definition; the race detector watches the locking.
func concAgedChild(a mon.Args) {
	var seed int64
	fmt.Sscan(a.Rest["seed"], &seed)
	out, err := os.Create(a.Rest["out"])
	if err != nil {
		os.Exit(3)
	}
	enc := json.NewEncoder(out)
	var wgp sync.WaitGroup
	var omu sync.Mutex
	for _, proto := range []string{"ipfix", "nf9"} {
		wgp.Add(1)
		go func(proto string) {
			defer wgp.Done()
			api := newCacheAPI(proto, "")
			var keys []concKey
			for e := 0; e < 96; e++ {
				for id := 0; id < 4; id++ {
					keys = append(keys, concKey{Addr: fullCap([]byte{10, 9, byte(e), byte(1 + e%200)}), ID: uint16(256 + id)})
				}
			}
			ver := func(ki int) int { return 1 + ki%200 }
			for ki, k := range keys {
				api.write(k, ver(ki))
			}
			res := agedOut{Proto: proto, Keys: len(keys), Rounds: 3}
			var bmu sync.Mutex
			for round := 0; round < res.Rounds; round++ {
				// start 40 ms before the next second boundary and keep going for 40 ms after it
				next := time.Now().Truncate(time.Second).Add(time.Second)
				if time.Until(next) < 60*time.Millisecond {
					next = next.Add(time.Second)
				}
				time.Sleep(time.Until(next) - 40*time.Millisecond)
				stop := next.Add(40 * time.Millisecond)
				var wg sync.WaitGroup
				for gi := 0; gi < 16; gi++ {
					wg.Add(1)
					go func(gi int) {
						defer wg.Done()
						g := mon.NewRNG(seed, fmt.Sprintf("aged-%s-%d", proto, round), gi)
						for n := 0; time.Now().Before(stop) || n < 200; n++ {
							ki := g.Intn(len(keys))
							switch g.Intn(3) {
							case 0:
								api.write(keys[ki], ver(ki))
								atomic.AddInt64(&res.Reannouncements, 1)
							default:
								var v int
								var note string
								if proto == "ipfix" && g.Bool() {
									v, note = api.get(keys[ki])
								} else {
									v, note = api.read(keys[ki])
								}
								atomic.AddInt64(&res.Lookups, 1)
								if v != ver(ki) {
									bmu.Lock()
									if len(res.Bad) < 20 {
										res.Bad = append(res.Bad, fmt.Sprintf("round %d: lookup of key %d (%x, %d) observed v%d %s; only v%d was ever announced for it", round, ki, keys[ki].Addr, keys[ki].ID, v, note, ver(ki)))
									}
									bmu.Unlock()
								}
							}
						}
					}(gi)
				}
				wg.Wait()
			}
			omu.Lock()
			enc.Encode(res)
			omu.Unlock()
		}(proto)
	}
	wgp.Wait()
	out.Close()
	os.Exit(0)
}

func pickOp(r, w, rd, get, dump int) string {
	switch {
	case r < w:
		return "w"
	case r < w+rd:
		return "r"
	case r < w+rd+get:
		return "get"
	}
	return "dump"
}

// ---------------------------------------------------------------- parent: checkers

type regIn struct {
	Write bool
	V     int
}

var regModel = porcupine.Model{
	Init: func() interface{} { return -1 },
	Step: func(st, in, out interface{}) (bool, interface{}) {
		i := in.(regIn)
		if i.Write {
			return true, i.V
		}
		return out.(int) == st.(int), st
	},
	DescribeOperation: func(in, out interface{}) string {
		i := in.(regIn)
		if i.Write {
			return fmt.Sprintf("announce(v%d)", i.V)
		}
		return fmt.Sprintf("lookup -> v%d", out.(int))
	},
}

var raceSplit = regexp.MustCompile(`(?m)^==================\n`)

type raceReport struct {
	Text  string
	Attr  string // C10 | harness | other
	Entry string // dedupe key: pair of innermost vflow frames
}

var frameRe = regexp.MustCompile(`(?m)^  ([^\s(]+(?:\([^)]*\))?[^\s(]*)\(`)

func parseRaceLogs(glob string) []raceReport {
	files, _ := filepath.Glob(glob)
	var out []raceReport
	for _, f := range files {
		b, err := os.ReadFile(f)
		if err != nil {
			continue
		}
		for _, blk := range raceSplit.Split(string(b), -1) {
			if !strings.Contains(blk, "WARNING: DATA RACE") {
				continue
			}
			r := raceReport{Text: blk}
			var vf []string
			for _, l := range strings.Split(blk, "\n") {
				l = strings.TrimSpace(l)
				if strings.HasPrefix(l, "github.com/EdgeCast/vflow/") {
					fn := strings.TrimPrefix(l, "github.com/EdgeCast/vflow/")
					if i := strings.LastIndex(fn, "("); i > 0 {
						fn = fn[:i]
					}
					vf = append(vf, fn)
				}
			}
			switch {
			case len(vf) == 0:
				r.Attr = "harness"
			default:
				r.Attr = "other"
				for _, fn := range vf {
					if strings.Contains(fn, "MemCache") || strings.Contains(fn, "GetCache") || strings.Contains(fn, "IRPC") ||
						strings.Contains(fn, "Decoder).decodeSet") || strings.Contains(fn, "Decoder).Decode") {
						r.Attr = "C10"
					}
				}
			}
			// innermost vflow frame of each of the two stacks
			parts := strings.Split(blk, "\n\n")
			var ends []string
			for _, p := range parts {
				for _, l := range strings.Split(p, "\n") {
					l = strings.TrimSpace(l)
					if strings.HasPrefix(l, "github.com/EdgeCast/vflow/") {
						fn := strings.TrimPrefix(l, "github.com/EdgeCast/vflow/")
						if i := strings.LastIndex(fn, "("); i > 0 {
							fn = fn[:i]
						}
						ends = append(ends, fn)
						break
					}
				}
				if len(ends) == 2 {
					break
				}
			}
			sort.Strings(ends)
			r.Entry = strings.Join(ends, " <-> ")
			out = append(out, r)
		}
	}
	return out
}

type concWitness struct {
	Seed       int64  `json:"seed"`
	History    int    `json:"history"`
	Setup      string `json:"setup"`
	Key        int    `json:"key,omitempty"`
	Ops        []cop  `json:"operations_on_the_key,omitempty"`
	Race       string `json:"race_report,omitempty"`
	Stderr     string `json:"stderr,omitempty"`
	Gomaxprocs int    `json:"gomaxprocs"`
}

func concMain(args mon.Args) {
	if _, ok := args.Rest["conc-aged-child"]; ok {
		concAgedChild(args)
		return
	}
	if _, ok := args.Rest["conc-child"]; ok {
		concChild(args)
		return
	}
	run := mon.NewRun("C10", "cachecheck/conc", "exploration")
	raceBin := filepath.Join(os.Getenv("VERIF_BUILD"), "cachecheck.race")
	if _, err := os.Stat(raceBin); err != nil {
		run.HarnessError("race-enabled engine not built: " + raceBin)
		run.Finish()
	}
	runDir := os.Getenv("VERIF_RUN")
	nh := run.Pick(64, 2000)
	seed := run.Seed
	from0 := 0
	if args.Replay != "" {
		d, err := mon.LoadReplay(args.Replay)
		if err != nil {
			run.HarnessError(err.Error())
			run.Finish()
		}
		var wit concWitness
		json.Unmarshal(d.Case, &wit)
		// schedule-determined witness: re-run the same history 20 times
		seed, from0, nh = wit.Seed, wit.History, 1
		fmt.Printf("replay: re-running history %d of seed %d twenty times\n", wit.History, wit.Seed)
	}
	type job struct {
		from, to, procs, rep int
	}
	var jobs []job
	per := 4
	reps := 1
	if args.Replay != "" {
		reps = 20
	}
	for rep := 0; rep < reps; rep++ {
		for a := from0; a < from0+nh; a += per {
			b := a + per
			if b > from0+nh {
				b = from0 + nh
			}
			jobs = append(jobs, job{a, b, []int{2, 4, 16}[(a/per+rep)%3], rep})
		}
	}
	var mu sync.Mutex
	all := map[int][]cop{}
	setup := map[int]string{}
	procsOf := map[int]int{}
	var races []raceReport
	sem := make(chan struct{}, 5)
	var wg sync.WaitGroup
	for ji, j := range jobs {
		wg.Add(1)
		sem <- struct{}{}
		go func(ji int, j job) {
			defer wg.Done()
			defer func() { <-sem }()
			dir := filepath.Join(runDir, fmt.Sprintf("job%d", ji))
			os.MkdirAll(dir, 0o755)
			outF := filepath.Join(dir, "ops.jsonl")
			cmd := exec.Command(raceBin, "--prop", "C10", "--conc-child", "1", "--seed", fmt.Sprint(seed), "--from", fmt.Sprint(j.from), "--to", fmt.Sprint(j.to),
				"--dir", dir, "--out", outF)
			cmd.Env = append(os.Environ(), fmt.Sprintf("GOMAXPROCS=%d", j.procs),
				"GORACE=halt_on_error=0 exitcode=0 log_path="+filepath.Join(dir, "race"))
			errF, _ := os.Create(filepath.Join(dir, "stderr"))
			cmd.Stderr, cmd.Stdout = errF, errF
			cmd.SysProcAttr = &syscall.SysProcAttr{Pdeathsig: syscall.SIGKILL}
			done := make(chan error, 1)
			if err := cmd.Start(); err != nil {
				run.HarnessError(err.Error())
				return
			}
			go func() { done <- cmd.Wait() }()
			var werr error
			select {
			case werr = <-done:
			case <-time.After(10 * time.Minute):
				cmd.Process.Signal(syscall.SIGQUIT)
				time.Sleep(time.Second)
				cmd.Process.Kill()
				<-done
				run.Inconclusive(fmt.Sprintf("histories %d..%d: wall-clock watchdog fired (goroutine dump in %s/stderr)", j.from, j.to, dir))
				return
			}
			errF.Close()
			rr := parseRaceLogs(filepath.Join(dir, "race.*"))
			mu.Lock()
			races = append(races, rr...)
			mu.Unlock()
			if f, err := os.Open(outF); err == nil {
				sc := bufio.NewScanner(f)
				sc.Buffer(make([]byte, 1<<20), 1<<26)
				mu.Lock()
				for sc.Scan() {
					var o cop
					if json.Unmarshal(sc.Bytes(), &o) != nil {
						continue
					}
					id := o.H + j.rep*1000000
					if o.Op == "end" {
						setup[id] = o.Note
						procsOf[id] = j.procs
						continue
					}
					all[id] = append(all[id], o)
				}
				mu.Unlock()
				f.Close()
			}
			if werr != nil {
				se, _ := os.ReadFile(filepath.Join(dir, "stderr"))
				txt := string(se)
				sig := "conc:child-died"
				if i := strings.Index(txt, "PARKED ["); i >= 0 {
					l := txt[i:]
					if k := strings.IndexByte(l, '\n'); k > 0 {
						l = l[:k]
					}
					if k := strings.Index(l, " in "); k > 0 && len(strings.Fields(l[k+4:])) > 0 {
						sig = "conc:operations-parked-for-ever:" + strings.Fields(l[k+4:])[0]
					}
				} else if i := strings.Index(txt, "fatal error:"); i >= 0 {
					l := txt[i:]
					if k := strings.IndexByte(l, '\n'); k > 0 {
						l = l[:k]
					}
					sig = "conc:" + l
				} else if i := strings.Index(txt, "panic:"); i >= 0 {
					sig = "conc:panic"
					if strings.Contains(txt, "encoding/json") {
						sig = "conc:panic-inside-encoding/json-during-Dump"
					}
				}
				run.Violation(sig, fmt.Sprintf("the process running histories %d..%d (GOMAXPROCS %d) died: %v; stderr head: %s", j.from, j.to, j.procs, werr, clip(txt, 600)),
					concWitness{Seed: seed, History: j.from, Gomaxprocs: j.procs, Stderr: clip(txt, 4000)})
			}
		}(ji, j)
	}
	// aged entries: identical re-announcements across wall-clock second boundaries (one child, alongside)
	var aged []agedOut
	if args.Replay == "" {
		dir := filepath.Join(runDir, "aged")
		os.MkdirAll(dir, 0o755)
		outF := filepath.Join(dir, "aged.jsonl")
		cmd := exec.Command(raceBin, "--prop", "C10", "--conc-aged-child", "1", "--seed", fmt.Sprint(seed), "--out", outF)
		cmd.Env = append(os.Environ(), "GOMAXPROCS=16", "GORACE=halt_on_error=0 exitcode=0 log_path="+filepath.Join(dir, "race"))
		errF, _ := os.Create(filepath.Join(dir, "stderr"))
		cmd.Stderr, cmd.Stdout = errF, errF
		cmd.SysProcAttr = &syscall.SysProcAttr{Pdeathsig: syscall.SIGKILL}
		done := make(chan error, 1)
		if err := cmd.Start(); err != nil {
			run.HarnessError(err.Error())
		} else {
			go func() { done <- cmd.Wait() }()
			select {
			case werr := <-done:
				errF.Close()
				if werr != nil {
					se, _ := os.ReadFile(filepath.Join(dir, "stderr"))
					txt := string(se)
					sig := "conc:aged:child-died"
					if i := strings.Index(txt, "fatal error:"); i >= 0 {
						l := txt[i:]
						if k := strings.IndexByte(l, '\n'); k > 0 {
							l = l[:k]
						}
						sig = "conc:aged:" + l
					}
					run.Violation(sig, fmt.Sprintf("the process re-announcing unchanged templates across second boundaries died: %v; stderr head: %s", werr, clip(txt, 600)),
						concWitness{Seed: seed, History: -1, Stderr: clip(txt, 4000)})
				}
			case <-time.After(5 * time.Minute):
				cmd.Process.Kill()
				<-done
				run.Inconclusive("aged-entries child: wall-clock watchdog fired")
			}
			mu.Lock()
			races = append(races, parseRaceLogs(filepath.Join(dir, "race.*"))...)
			mu.Unlock()
			if f, err := os.Open(outF); err == nil {
				dec := json.NewDecoder(f)
				for {
					var ao agedOut
					if dec.Decode(&ao) != nil {
						break
					}
					aged = append(aged, ao)
					run.Eval(1)
					run.Distinct("aged|" + ao.Proto)
					for _, b := range ao.Bad {
						run.Violation("conc:aged:lookup-after-identical-reannouncement", ao.Proto+": "+b, concWitness{Seed: seed, History: -1, Setup: "aged entries " + ao.Proto})
						break
					}
				}
				f.Close()
			}
			if len(aged) < 2 {
				run.Inconclusive("aged-entries child reported fewer than two protocols")
			}
		}
	}
	wg.Wait()

	// ---- history check per history, partitioned by key
	var nOps, nOverlap, nConcReads, nDumpsOverW, nParts, nIllegal, nUnknown int64
	ids := make([]int, 0, len(all))
	for id := range all {
		ids = append(ids, id)
	}
	sort.Ints(ids)
	var reproduced int64
	mon.ParallelFor(len(ids), func(ii int) {
		id := ids[ii]
		ops := all[id]
		atomic.AddInt64(&nOps, int64(len(ops)))
		run.Eval(1)
		byKey := map[int][]cop{}
		for _, o := range ops {
			if o.Op == "dump" {
				continue
			}
			byKey[o.Key] = append(byKey[o.Key], o)
		}
		desc := fmt.Sprintf("%s|keys%d", setup[id], len(byKey))
		histBad := false
		for key, ko := range byKey {
			atomic.AddInt64(&nParts, 1)
			// direct refutations first: an observation that is no complete announced definition
			written := map[int]cop{}
			for _, o := range ko {
				if o.Op == "w" {
					written[o.Arg] = o
				}
			}
			var pops []porcupine.Operation
			for _, o := range ko {
				if o.Op == "w" {
					pops = append(pops, porcupine.Operation{ClientId: o.G, Input: regIn{true, o.Arg}, Call: o.Call, Output: 0, Return: o.Ret})
					continue
				}
				if o.Out == -2 {
					histBad = true
					run.Violation("conc:lookup-saw-no-complete-definition:"+o.Op, fmt.Sprintf("history %d (%s) key %d: a %s observed something that is not one complete announced definition: %s", id, setup[id], key, o.Op, o.Note),
						concWitness{Seed: seed, History: id % 1000000, Setup: setup[id], Key: key, Ops: clipOps(ko), Gomaxprocs: procsOf[id]})
					continue
				}
				if o.Out >= 0 {
					wv, ok := written[o.Out]
					if !ok {
						histBad = true
						run.Violation("conc:lookup-saw-never-announced-definition:"+o.Op, fmt.Sprintf("history %d key %d: a %s observed definition v%d, which nobody announced for this exporter and id", id, key, o.Op, o.Out),
							concWitness{Seed: seed, History: id % 1000000, Setup: setup[id], Key: key, Ops: clipOps(ko), Gomaxprocs: procsOf[id]})
						continue
					}
					if wv.Ret > o.Call && wv.Call < o.Ret {
						atomic.AddInt64(&nConcReads, 1)
					}
				}
				pops = append(pops, porcupine.Operation{ClientId: o.G, Input: regIn{false, 0}, Call: o.Call, Output: o.Out, Return: o.Ret})
			}
			// direct necessary conditions (conclusive, cheap; unique versions make a lookup name its announcement)
			for _, o := range ko {
				if o.Op == "w" || o.Out == -2 {
					continue
				}
				for _, w2 := range ko {
					if w2.Op != "w" || w2.Ret >= o.Call {
						continue
					}
					// w2 completed before the lookup began
					if o.Out == -1 {
						histBad = true
						run.Violation("conc:lookup-missed-completed-announcement:"+o.Op, fmt.Sprintf("history %d key %d: a %s that began at %d ns found no template although announcement v%d had completed at %d ns", id, key, o.Op, o.Call, w2.Arg, w2.Ret),
							concWitness{Seed: seed, History: id % 1000000, Setup: setup[id], Key: key, Ops: clipOps(ko), Gomaxprocs: procsOf[id]})
						break
					}
					if wv, ok := written[o.Out]; ok && wv.Ret < w2.Call {
						histBad = true
						run.Violation("conc:lookup-saw-superseded-definition:"+o.Op, fmt.Sprintf("history %d key %d: a %s that began at %d ns observed v%d although v%d was announced after v%d had completed and itself completed at %d ns, before the lookup began", id, key, o.Op, o.Call, o.Out, w2.Arg, o.Out, w2.Ret),
							concWitness{Seed: seed, History: id % 1000000, Setup: setup[id], Key: key, Ops: clipOps(ko), Gomaxprocs: procsOf[id]})
						break
					}
				}
			}
			// overlap statistics (schedule diversity actually observed)
			sort.Slice(ko, func(i, j int) bool { return ko[i].Call < ko[j].Call })
			for i := range ko {
				for j := i + 1; j < len(ko) && ko[j].Call <= ko[i].Ret; j++ {
					atomic.AddInt64(&nOverlap, 1)
					if (ko[i].Op == "dumpread" && ko[j].Op == "w") || (ko[j].Op == "dumpread" && ko[i].Op == "w") {
						atomic.AddInt64(&nDumpsOverW, 1)
					}
				}
			}
			res, info := porcupine.CheckOperationsVerbose(regModel, pops, 10*time.Second)
			switch res {
			case porcupine.Illegal:
				atomic.AddInt64(&nIllegal, 1)
				histBad = true
				_ = info
				run.Violation("conc:history-not-linearizable", fmt.Sprintf("history %d (%s) key %d: the %d operations on this (exporter,id) admit no order in which every lookup sees the latest completed announcement (a lookup returned a superseded or not-yet-announced definition)", id, setup[id], key, len(pops)),
					concWitness{Seed: seed, History: id % 1000000, Setup: setup[id], Key: key, Ops: clipOps(ko), Gomaxprocs: procsOf[id]})
			case porcupine.Unknown:
				atomic.AddInt64(&nUnknown, 1)
				run.Inconclusive(fmt.Sprintf("history %d key %d: linearizability checker timed out", id, key))
			}
		}
		if histBad {
			atomic.AddInt64(&reproduced, 1)
		}
		if len(ops) > 50 {
			run.Distinct(desc + fmt.Sprint(id))
		}
		if run.WantSample() && len(ops) > 20 {
			run.Sample(map[string]interface{}{"history": id, "setup": setup[id], "gomaxprocs": procsOf[id], "operations": len(ops), "first_operations": ops[:8]})
		}
	})
	// ---- race reports
	byEntry := map[string]int{}
	attr := map[string]int{}
	for _, r := range races {
		attr[r.Attr]++
		byEntry[r.Attr+": "+r.Entry]++
	}
	seenEntry := map[string]bool{}
	for _, r := range races {
		switch r.Attr {
		case "harness":
			run.HarnessError("race report without any vflow frame (the monitor itself races): " + clip(r.Text, 1500))
		case "C10":
			if !seenEntry[r.Entry] {
				seenEntry[r.Entry] = true
			}
			run.Violation("conc:data-race:"+r.Entry, "the race detector reported unsynchronised accesses in template-cache code: "+clip(r.Text, 1800),
				concWitness{Seed: seed, Race: clip(r.Text, 6000)})
		}
	}
	if args.Replay != "" {
		fmt.Printf("replay: %d of %d runs showed a violating history; %d race reports\n", atomic.LoadInt64(&reproduced), len(ids), len(races))
		_ = reproduced
	}
	run.Set("histories", len(ids))
	run.Set("operations", nOps)
	run.Set("key_partitions_checked", nParts)
	run.Set("overlapping_operation_pairs_on_one_key", nOverlap)
	run.Set("lookups_that_returned_a_concurrently_announced_definition", nConcReads)
	run.Set("dump_lookup_pairs_overlapping_an_announcement", nDumpsOverW)
	run.Set("porcupine", map[string]int64{"illegal": nIllegal, "timeout": nUnknown, "ok": nParts - nIllegal - nUnknown})
	run.Set("aged_entries_phase", aged)
	run.Set("race_reports_by_attribution", attr)
	run.Set("race_reports_by_entry_pair", byEntry)
	if nOverlap == 0 || nConcReads == 0 {
		run.HarnessError("no overlapping operations were observed: the workload did not produce concurrency")
	}
	run.SetRule("race-detector build of the harness+vflow; per history 4-32 goroutines (writer-, reader-, getter-, dumper-leaning roles) over 2-8 (exporter,id) keys, overlapping or disjoint, 200-2000 operations, GOMAXPROCS 2/4/16; every client call recorded {goroutine,key,op,call,return,result} from one monotonic clock: announce(v) = Decode of a template message (every second one a set of three templates of that exporter; every second key uses options templates whose number of option fields changes with the version) whose field lengths encode a per-key unique version, lookup = Decode of a data set (version read off the decoded record shape) or IRPC.Get, and every Dump file is loaded back with GetCache and contributes one lookup per key over the dump's interval. A further child announces 384 keys per protocol once and then, around three wall-clock second boundaries, lets 16 goroutines re-announce the SAME definitions and look them up (cache entries carry their announcement time; an unchanged re-announcement seconds later is the everyday concurrent operation no sub-second history produces). Oracles: race log (attributed by frames), child survival (a child in which no operation completes for 8 s while a goroutine is parked on a lock or channel inside cache code reports that and exits), 'observed a complete, announced definition', and porcupine linearizability per key against a register model. distinct = histories with > 50 operations")
	run.Assume("only schedules that occurred are judged; the race detector makes the locking discipline itself observable beyond them")
	run.Finish()
}

func clip(s string, n int) string {
	if len(s) > n {
		return s[:n] + "…"
	}
	return s
}

func clipOps(o []cop) []cop {
	if len(o) > 400 {
		return o[:400]
	}
	return o
}
