package main

import (
	"encoding/binary"
	"encoding/json"
	"fmt"
	"hash/fnv"
	"io"
	"log"
	"net"
	"net/rpc"
	"os"
	"os/exec"
	"path/filepath"
	"sort"
	"strings"
	"sync"
	"sync/atomic"
	"syscall"
	"time"

	"github.com/EdgeCast/vflow/ipfix"
	netflow9 "github.com/EdgeCast/vflow/netflow/v9"

	"verif/harness/mon"
	"verif/harness/wire"
)

// histMsg is one datagram of a history with what the reference map says it must yield.
type histMsg struct {
	Exporter string   `json:"exporter"`
	Dgram    string   `json:"datagram"`
	Expect   []string `json:"expected_records"`
	Unknown  []uint16 `json:"expected_unknown_template_ids"`
	Note     string   `json:"note"`
	CutShort bool     `json:"datagram_cut_short,omitempty"` // the datagram ends inside a template record: no message is required for it
}

type histCase struct {
	Proto    string    `json:"proto"`
	Msgs     []histMsg `json:"history"`
	Gets     []histGet `json:"peer_lookups,omitempty"`
	At       int       `json:"failing_message"`
	Got      []string  `json:"got_records,omitempty"`
	Err      string    `json:"decoder_error,omitempty"`
	Collide  bool      `json:"uses_colliding_keys"`
	KeyFacts string    `json:"key_facts,omitempty"`
}

// histGet is a peer lookup placed after message After.
type histGet struct {
	After    int    `json:"after_message"`
	Exporter string `json:"exporter"`
	ID       uint16 `json:"id"`
	Want     string `json:"expected"` // "" = not available, otherwise the template text
}

func tplText(t *wire.Template) string {
	var sb strings.Builder
	fmt.Fprintf(&sb, "id=%d count=%d scope=%d", t.ID, len(t.Scope)+len(t.Fields), len(t.Scope))
	for _, f := range t.Scope {
		fmt.Fprintf(&sb, " S(%d,%d,%d)", f.ID, f.Len, f.PEN)
	}
	for _, f := range t.Fields {
		fmt.Fprintf(&sb, " F(%d,%d,%d)", f.ID, f.Len, f.PEN)
	}
	return sb.String()
}

func recText(tr *ipfix.TemplateRecord) string {
	var sb strings.Builder
	fmt.Fprintf(&sb, "id=%d count=%d scope=%d", tr.TemplateID, tr.FieldCount, tr.ScopeFieldCount)
	for _, f := range tr.ScopeFieldSpecifiers {
		fmt.Fprintf(&sb, " S(%d,%d,%d)", f.ElementID, f.Length, f.EnterpriseNo)
	}
	for _, f := range tr.FieldSpecifiers {
		fmt.Fprintf(&sb, " F(%d,%d,%d)", f.ElementID, f.Length, f.EnterpriseNo)
	}
	return sb.String()
}

func fnvKey(addr []byte, id uint16) uint32 {
	h := fnv.New32()
	h.Write(addr)
	var b [2]byte
	binary.BigEndian.PutUint16(b[:], id)
	h.Write(b[:])
	return h.Sum32()
}

type keyT struct {
	Addr []byte
	ID   uint16
}

var (
	collOnce  sync.Once
	collPairs [][2]keyT
)

// collisions finds (exporter,id) pairs with equal FNV-1-32 of address‖id: same id on two IPv4
// exporters, and different ids on two exporters (IPv4 and IPv6 forms). Fixed PRNG: the pairs are
// part of the deterministic corpus.
func collisions() [][2]keyT {
	collOnce.Do(func() {
		g := mon.NewRNG(99, "collide", 0)
		find := func(gen func() keyT, want int) {
			seen := map[uint32]keyT{}
			for n := 0; n < 3000000 && want > 0; n++ {
				k := gen()
				h := fnvKey(k.Addr, k.ID)
				if o, ok := seen[h]; ok {
					if string(o.Addr) != string(k.Addr) || o.ID != k.ID {
						collPairs = append(collPairs, [2]keyT{o, k})
						want--
						delete(seen, h)
						continue
					}
				}
				seen[h] = k
			}
		}
		find(func() keyT { return keyT{g.Bytes(4), 256} }, 12)                                              // same id, two IPv4 exporters
		find(func() keyT { return keyT{g.Bytes(4), uint16(g.Range(256, 300))} }, 12)                        // any id, IPv4
		find(func() keyT { a := g.Bytes(16); a[0] = 0x20; return keyT{a, uint16(g.Range(256, 1256))} }, 12) // IPv6
		find(func() keyT {
			a := make([]byte, 16)
			a[10], a[11] = 0xff, 0xff
			copy(a[12:], g.Bytes(4))
			return keyT{a, uint16(g.Range(256, 260))}
		}, 12) // IPv4-mapped form (what a dual-stack socket reports)
	})
	return collPairs
}

// aliasPairs are (exporter,id) pairs that a carelessly derived cache key could map onto one entry although
// the hash of address‖id differs: textual concatenation without a separator, part of the address ignored,
// octets combined commutatively, part of the id ignored, byte order of the id.
func aliasPairs() [][2]keyT {
	ip := func(s string) []byte {
		p := net.ParseIP(s)
		if v4 := p.To4(); v4 != nil && !strings.Contains(s, ":") {
			return append([]byte{}, v4...)
		}
		return append([]byte{}, p.To16()...)
	}
	m := func(s string) []byte { // IPv4-mapped 16-byte form
		b := make([]byte, 16)
		b[10], b[11] = 0xff, 0xff
		copy(b[12:], net.ParseIP(s).To4())
		return b
	}
	return [][2]keyT{
		{{ip("10.0.0.1"), 1256}, {ip("10.0.0.11"), 256}}, // "10.0.0.1"+"1256" == "10.0.0.11"+"256"
		{{ip("10.0.0.2"), 2560}, {ip("10.0.0.22"), 560}},
		{{m("10.0.0.1"), 1256}, {m("10.0.0.11"), 256}},
		{{ip("2001:db8::1"), 1256}, {ip("2001:db8::11"), 256}},
		{{ip("192.0.2.25"), 6000}, {ip("192.0.2.2"), 56000}},
		{{ip("10.1.2.3"), 256}, {ip("11.1.2.3"), 256}}, // differ in the first octet only
		{{ip("10.1.2.3"), 256}, {ip("10.1.2.4"), 256}}, // last octet only
		{{ip("10.1.2.3"), 256}, {ip("10.2.1.3"), 256}}, // same octets, other order
		{{ip("1.2.3.4"), 300}, {ip("4.3.2.1"), 300}},
		{{m("10.1.2.3"), 257}, {m("10.1.3.2"), 257}},
		{{ip("2001:db8:1::7"), 256}, {ip("2001:db8:2::7"), 256}},         // differ in the upper 64 bits only
		{{ip("2001:db8::1:0:0:7"), 256}, {ip("2001:db8::2:0:0:7"), 256}}, // differ in the lower 64 bits only
		{{ip("2001:db8::7"), 256}, {ip("2001:db9::7"), 256}},
		{{ip("198.51.100.9"), 256}, {ip("198.51.100.9"), 512}},   // id & 0xff equal
		{{ip("198.51.100.9"), 300}, {ip("198.51.100.9"), 556}},   // id + 256
		{{ip("198.51.100.9"), 256}, {ip("198.51.100.9"), 33024}}, // id ^ 0x8000
		{{ip("198.51.100.9"), 258}, {ip("198.51.100.9"), 513}},   // 0x0102 / 0x0201
		{{m("198.51.100.9"), 1000}, {m("198.51.100.9"), 1001}},
		{{ip("0.0.1.0"), 256}, {ip("0.0.0.1"), 256}},
		{{ip("255.255.255.255"), 65535}, {ip("255.255.255.254"), 65535}},
	}
}

func akey(addr []byte, id uint16) string { return fmt.Sprintf("%x/%d", addr, id) }

// genHistory builds a history and its expectations from a reference map updated in history order.
func genHistory(g *mon.RNG, proto string, snap []wire.Elem, pair *[2]keyT) *histCase {
	c := &histCase{Proto: proto, Collide: pair != nil}
	o := wire.GenOpts{Elems: snap, Varlen: proto == "ipfix", Reduced: true, Options: true, MaxFields: 6, MaxStrLen: 12}
	if proto == "nf9" {
		o.OnlyPEN0, o.Varlen = true, false
	}
	var exporters [][]byte
	var ids []uint16
	if pair != nil {
		exporters = [][]byte{pair[0].Addr, pair[1].Addr}
		ids = []uint16{pair[0].ID}
		if pair[1].ID != pair[0].ID {
			ids = append(ids, pair[1].ID)
		}
		if fnvKey(pair[0].Addr, pair[0].ID) == fnvKey(pair[1].Addr, pair[1].ID) {
			c.KeyFacts = fmt.Sprintf("FNV-1-32(%x‖%d) = FNV-1-32(%x‖%d) = %#x", pair[0].Addr, pair[0].ID, pair[1].Addr, pair[1].ID, fnvKey(pair[0].Addr, pair[0].ID))
		} else {
			c.KeyFacts = fmt.Sprintf("structurally aliasing keys: (%v, %d) and (%v, %d)", net.IP(pair[0].Addr), pair[0].ID, net.IP(pair[1].Addr), pair[1].ID)
		}
	} else {
		ne := g.Range(2, 6)
		if g.Chance(1, 10) {
			ne = g.Range(10, 50)
		}
		for i := 0; i < ne; i++ {
			exporters = append(exporters, wire.GenAddr(g))
		}
		for i, n := 0, g.Range(2, 5); i < n; i++ {
			ids = append(ids, uint16(256+g.Intn(8)))
		}
	}
	ref := map[string]*wire.Template{}
	nmsg := g.Range(5, 30)
	if pair != nil {
		nmsg = g.Range(4, 12)
	}
	if g.Chance(1, 20) {
		nmsg = g.Range(50, 200)
	}
	pick := func() ([]byte, uint16) {
		if pair != nil {
			// the two colliding keys, each with its own exporter
			k := pair[g.Intn(2)]
			return k.Addr, k.ID
		}
		return exporters[g.Intn(len(exporters))], ids[g.Intn(len(ids))]
	}
	announce := func(addr []byte, id uint16) wire.Set {
		t := wire.GenTemplate(g, id, o)
		if old := ref[akey(addr, id)]; old != nil && g.Chance(1, 2) {
			// a re-announcement that differs from what is in force as little as possible (one length, the order, one
			// field more or less): it is a new definition all the same
			t, _ = wire.MinimalVariant(g, old, o)
		}
		ref[akey(addr, id)] = t
		k := wire.SetTemplate
		if t.Options {
			k = wire.SetOptTemplate
		}
		s := wire.Set{Kind: k, Templates: []*wire.Template{t}}
		if proto == "nf9" {
			s.Pad = (4 - wire.SetLen(&s)%4) % 4
		}
		return s
	}
	data := func(addr []byte, id uint16, m *histMsg) wire.Set {
		t := ref[akey(addr, id)]
		if t == nil {
			m.Unknown = append(m.Unknown, id)
			return wire.Set{Kind: wire.SetRaw, SetID: id, RawBody: g.Bytes(4 * g.Range(1, 10))}
		}
		s := wire.GenDataSet(g, t, g.Range(1, 3), o, 3)
		if proto == "nf9" {
			for try := 0; ; try++ {
				s.Pad = 0
				need := (4 - wire.SetLen(&s)%4) % 4
				if need < t.MinRecLen() {
					s.Pad = need
					break
				}
				s.Records = append(s.Records, wire.GenRecord(g, t, o))
			}
		}
		for _, r := range s.Records {
			var sb strings.Builder
			for _, f := range wire.ExpectRecord(t, r) {
				if proto == "nf9" {
					f.PEN = 0
				}
				sb.WriteString(f.String())
			}
			m.Expect = append(m.Expect, sb.String())
		}
		return s
	}
	for mi := 0; mi < nmsg; mi++ {
		addr, id := pick()
		m := histMsg{Exporter: mon.Hex(addr)}
		var sets []wire.Set
		kindNo := g.Intn(7)
		if kindNo == 6 && (pair != nil || len(ids) < 2) {
			kindNo = 0
		}
		var cutAt int
		switch kindNo {
		case 6:
			// a template refresh larger than the receive buffer: one template set with two or three templates, the
			// datagram ends inside the last record. The templates that arrived completely were announced.
			oo := o
			oo.Options = false
			k := 2 + g.Intn(2)
			if k > len(ids) {
				k = len(ids)
			}
			perm := g.Perm(len(ids))
			var ts []*wire.Template
			for j := 0; j < k; j++ {
				ts = append(ts, wire.GenTemplate(g, ids[perm[j]], oo))
			}
			full, _ := wire.EncodeFlow(proto, []uint32{uint32(mi), g.U32(), g.U32(), g.U32()}, []wire.Set{{Kind: wire.SetTemplate, Templates: ts}})
			pre, _ := wire.EncodeFlow(proto, []uint32{uint32(mi), 0, 0, 0}, []wire.Set{{Kind: wire.SetTemplate, Templates: ts[:k-1]}})
			if len(full)-len(pre) >= 3 {
				cutAt = len(pre) + 1 + g.Intn(len(full)-len(pre)-2)
				for j := 0; j < k-1; j++ {
					ref[akey(addr, ts[j].ID)] = ts[j]
				}
				m.Note = fmt.Sprintf("a template set of %d templates cut short inside the last one (%d of %d octets)", k, cutAt, len(full))
				m.CutShort = true
				m.Dgram = mon.Hex(full[:cutAt])
				c.Msgs = append(c.Msgs, m)
				continue
			}
			m.Note = "announce"
			sets = append(sets, announce(addr, id))
		case 0, 1:
			m.Note = "announce"
			sets = append(sets, announce(addr, id))
			if g.Chance(1, 3) {
				_, id2 := pick()
				sets = append(sets, announce(addr, id2))
			}
		case 2, 3:
			m.Note = "data"
			for k := g.Range(1, 3); k > 0; k-- {
				_, idk := pick()
				if pair != nil {
					idk = id
				}
				sets = append(sets, data(addr, idk, &m))
			}
		case 4:
			m.Note = "announce then data in one message"
			sets = append(sets, announce(addr, id), data(addr, id, &m))
		default:
			m.Note = "data, redefinition, data in one message"
			sets = append(sets, data(addr, id, &m), announce(addr, id), data(addr, id, &m))
		}
		b, _ := wire.EncodeFlow(proto, []uint32{uint32(mi), g.U32(), g.U32(), g.U32()}, sets)
		m.Dgram = mon.Hex(b)
		c.Msgs = append(c.Msgs, m)
		if proto == "ipfix" && g.Chance(1, 4) {
			ga, gid := pick()
			get := histGet{After: mi, Exporter: mon.Hex(ga), ID: gid}
			if t := ref[akey(ga, gid)]; t != nil {
				get.Want = tplText(t)
			}
			c.Gets = append(c.Gets, get)
		}
	}
	return c
}

func fullCap(b []byte) []byte { return append(make([]byte, 0, len(b)), b...)[:len(b):len(b)] }

// runHistory replays the history on a fresh cache through the real decoder and peer API.
func runHistory(c *histCase) (kind, what string) {
	return runHistoryRange(c, 0, len(c.Msgs), "", "")
}

// runHistoryRange replays messages [from,to) on the cache loaded from file in ("" = fresh) and, when
// out is given, saves the cache there afterwards - one collector life between two restarts.
func runHistoryRange(c *histCase, from, to int, in, out string) (kind, what string) {
	defer func() {
		if p := recover(); p != nil {
			kind, what = "panic", fmt.Sprint(p)
		}
	}()
	var ic ipfix.MemCache
	var nc netflow9.MemCache
	var cl *rpc.Client
	var irpc *ipfix.IRPC
	defer func() {
		if out != "" && kind == "" {
			if c.Proto == "ipfix" {
				ic.Dump(out)
			} else {
				nc.Dump(out)
			}
		}
	}()
	if c.Proto == "ipfix" {
		ic = ipfix.GetCache(in)
		irpc = ipfix.NewRPC(ic)
		if len(c.Gets) > 0 {
			srv := rpc.NewServer()
			srv.Register(irpc)
			l, err := net.Listen("tcp", "127.0.0.1:0")
			if err == nil {
				defer l.Close()
				go srv.Accept(l)
				cl, _ = rpc.Dial("tcp", l.Addr().String())
				if cl != nil {
					defer cl.Close()
				}
			}
		}
	} else {
		nc = netflow9.GetCache(in)
	}
	gi := 0
	for gi < len(c.Gets) && c.Gets[gi].After < from {
		gi++
	}
	for i := from; i < to && i < len(c.Msgs); i++ {
		m := c.Msgs[i]
		addr := fullCap(mon.UnHex(m.Exporter))
		var recs []string
		var errText string
		var isNil bool
		if c.Proto == "ipfix" {
			msg, err := ipfix.NewDecoder(net.IP(addr), mon.UnHex(m.Dgram)).Decode(ic)
			if err != nil {
				errText = err.Error()
			}
			isNil = msg == nil
			if msg != nil {
				for _, ds := range msg.DataSets {
					var sb strings.Builder
					for _, f := range ds {
						sb.WriteString(wire.ExpField{ID: f.ID, PEN: f.EnterpriseNo, Canon: wire.Canon(f.Value)}.String())
					}
					recs = append(recs, sb.String())
				}
			}
		} else {
			msg, err := netflow9.NewDecoder(net.IP(addr), mon.UnHex(m.Dgram)).Decode(nc)
			if err != nil {
				errText = err.Error()
			}
			isNil = msg == nil
			if msg != nil {
				for _, ds := range msg.DataSets {
					var sb strings.Builder
					for _, f := range ds {
						sb.WriteString(wire.ExpField{ID: f.ID, Canon: wire.Canon(f.Value)}.String())
					}
					recs = append(recs, sb.String())
				}
			}
		}
		c.At, c.Got, c.Err = i, recs, errText
		if m.CutShort {
			if len(recs) > 0 {
				return "records-from-a-cut-template-set", fmt.Sprintf("message %d (%s): %d records decoded from a datagram that carries only templates", i, m.Note, len(recs))
			}
			continue
		}
		if isNil {
			return "message-lost", fmt.Sprintf("message %d (%s): no message returned: %s", i, m.Note, errText)
		}
		for k := 0; k < len(recs) && k < len(m.Expect); k++ {
			if recs[k] != m.Expect[k] {
				return "wrong-template", fmt.Sprintf("message %d (%s) from %s: record %d decoded as %s; with the template this exporter announced last it is %s", i, m.Note, m.Exporter, k, recs[k], m.Expect[k])
			}
		}
		if len(recs) > len(m.Expect) {
			if len(m.Unknown) > 0 {
				return "records-for-unannounced-template", fmt.Sprintf("message %d (%s) from %s: %d records decoded, %d expected; template ids %v were never announced by this exporter", i, m.Note, m.Exporter, len(recs), len(m.Expect), m.Unknown)
			}
			return "extra-records", fmt.Sprintf("message %d (%s): %d records decoded, %d expected", i, m.Note, len(recs), len(m.Expect))
		}
		if len(recs) < len(m.Expect) {
			return "missing-records", fmt.Sprintf("message %d (%s) from %s: %d records decoded, %d expected (%s)", i, m.Note, m.Exporter, len(recs), len(m.Expect), errText)
		}
		for _, id := range m.Unknown {
			if !strings.Contains(errText, fmt.Sprintf("template id# %d", id)) || !strings.Contains(errText, "unknown") {
				return "unknown-not-reported", fmt.Sprintf("message %d: data for template id %d, which %s never announced, was not reported as unknown (error: %q)", i, id, m.Exporter, errText)
			}
		}
		for gi < len(c.Gets) && c.Gets[gi].After == i {
			gt := c.Gets[gi]
			gi++
			req := ipfix.RPCRequest{ID: gt.ID, IP: net.IP(fullCap(mon.UnHex(gt.Exporter)))}
			var direct ipfix.TemplateRecord
			derr := irpc.Get(req, &direct)
			got := ""
			if derr == nil {
				got = recText(&direct)
			}
			if got != gt.Want {
				return "peer-get", fmt.Sprintf("after message %d: IRPC.Get(%s, %d) = %q (%v), reference says %q", i, gt.Exporter, gt.ID, got, derr, gt.Want)
			}
			if cl != nil {
				var remote *ipfix.TemplateRecord
				rerr := cl.Call("IRPC.Get", req, &remote)
				got = ""
				if rerr == nil && remote != nil {
					got = recText(remote)
				}
				if got != gt.Want {
					return "peer-get-rpc", fmt.Sprintf("after message %d: net/rpc IRPC.Get(%s, %d) = %q (%v), reference says %q", i, gt.Exporter, gt.ID, got, rerr, gt.Want)
				}
			}
		}
	}
	return "", ""
}

func histMain(args mon.Args) {
	run := mon.NewRun("C04", "cachecheck/hist", "exploration")
	if args.Replay != "" {
		d, err := mon.LoadReplay(args.Replay)
		if err != nil {
			run.HarnessError(err.Error())
			run.Finish()
		}
		var c histCase
		json.Unmarshal(d.Case, &c)
		run.Eval(1)
		run.DistinctBulk(2)
		if k, w := runHistory(&c); k != "" {
			run.Violation(d.Signature, w, c)
		} else {
			fmt.Println("replay: the case no longer violates")
		}
		run.Finish()
	}
	snap, err := wire.LoadSnapshot(mon.Root())
	if err != nil {
		run.HarnessError(err.Error())
		run.Finish()
	}
	pairs := collisions()
	run.Set("colliding_key_pairs_found", len(pairs))
	if len(pairs) < 8 {
		run.HarnessError("collision search found too few pairs")
	}
	one := func(g *mon.RNG, proto string, pair *[2]keyT, sample bool) {
		c := genHistory(g, proto, snap, pair)
		run.Eval(1)
		nrec, nunk := 0, 0
		for _, m := range c.Msgs {
			nrec += len(m.Expect)
			nunk += len(m.Unknown)
		}
		run.Add("messages", int64(len(c.Msgs)))
		run.Add("records_expected", int64(nrec))
		run.Add("unknown_template_sets", int64(nunk))
		run.Add("peer_lookups", int64(len(c.Gets)))
		if nrec > 0 {
			run.Distinct(fmt.Sprintf("%s|%v|%d|%d|%d|%s", proto, pair != nil, len(c.Msgs), nrec, nunk, c.Msgs[0].Dgram[:40]))
		}
		if sample {
			run.Sample(map[string]interface{}{"proto": proto, "colliding": pair != nil, "key_facts": c.KeyFacts, "history(first 4)": c.Msgs[:min(4, len(c.Msgs))]})
		}
		if k, w := runHistory(c); k != "" {
			sig := "hist:" + proto + ":" + k
			if pair != nil {
				sig += ":colliding-keys"
			}
			run.Violation(sig, w, c)
		}
	}
	n := run.Pick(10000, 200000)
	mon.ParallelFor(n, func(i int) {
		g := mon.NewRNG(run.Seed, "hist", i)
		one(g, []string{"ipfix", "nf9"}[i%2], nil, i < 2)
	})
	nc := run.Pick(480, 10000)
	mon.ParallelFor(nc, func(i int) {
		g := mon.NewRNG(run.Seed, "histcollide", i)
		p := pairs[i%len(pairs)]
		one(g, []string{"ipfix", "nf9"}[(i/len(pairs))%2], &p, i < 2)
	})
	ap := aliasPairs()
	run.Set("structurally_aliasing_key_pairs", len(ap))
	na := run.Pick(20*len(ap), 300*len(ap))
	mon.ParallelFor(na, func(i int) {
		g := mon.NewRNG(run.Seed, "histalias", i)
		p := ap[i%len(ap)]
		one(g, []string{"ipfix", "nf9"}[(i/len(ap))%2], &p, false)
	})
	peerClientPhase(run, snap)
	crowdedShard(run)
	concurrentLookups(run)
	concurrentAnnouncers(run)
	crossProcessHistories(run, snap, "hist:xproc", run.Pick(60, 1500))
	// canary
	{
		g := mon.NewRNG(run.Seed, "canary", 0)
		var c *histCase
		for {
			c = genHistory(g, "ipfix", snap, nil)
			ok := false
			for i := range c.Msgs {
				if len(c.Msgs[i].Expect) > 0 {
					c.Msgs[i].Expect[0] += "x"
					ok = true
					break
				}
			}
			if ok {
				break
			}
		}
		if k, _ := runHistory(c); k == "" {
			run.HarnessError("canary: comparator accepted a corrupted expectation")
		}
	}
	run.SetRule("seeded histories of 5-200 messages over 2-50 exporters (4-byte, IPv4-mapped, IPv6) and a pool of 2-5 template ids: announcements, re-announcements with a different definition (half of them minimal variants of the definition in force: one length, the order, one field more or less), data, announce+data, data/redefinition/data inside one message, and template refreshes cut short inside their last template (the complete ones count as announced); a reference map (address octets, id) → latest definition, updated in history order, gives the expected records and the expected 'unknown template' reports of every message; IPFIX peer lookups (IRPC.Get directly and through a real net/rpc server on loopback) must return exactly the reference entry or 'not available'; a peer-client phase runs the real ipfix.RPCServer (port 8085) and fetches hundreds of templates through ONE ipfix.RPCClient, keeping each answer as the RPC loop does: every kept answer must stay equal to its own key's entry. 60-1500 further histories are cut at 1-3 points and every part runs in a process of its own that loads the cache file its predecessor saved (real restarts: per-process state such as a random hash seed differs between the lives, and so does GOMAXPROCS: 2..48). A crowd phase announces 5200 pairs, 2600 of them in one shard, and decodes data of 500 of them. A concurrent phase lets 16 goroutines look up 64 announced keys (8 in one shard) 40 000 times without any announcement: every lookup must see its own key's definition; then 16 goroutines, each the only announcer of its own key, re-announce and decode 1500 times (read-your-own-announcement). Adversarial histories use key pairs with equal FNV-1-32 of address‖id (found by birthday search: same id on two exporters, different ids, IPv4/IPv6/mapped forms) and 20 structurally aliasing pairs (decimal concatenation without separator, addresses differing in one part only or with permuted octets, ids equal modulo 256 / xor 0x8000 / byte-swapped). distinct = (protocol, colliding, sizes, first datagram); non-trivial = at least one record expected")
	run.Assume("the RPC() loop itself (multicast discovery) cannot run in this sandbox (no interface with flags == 19); IRPC.Get, RPCServer and RPCClient.Get are exercised")
	run.Set("sub_claims_not_reached", []string{"peer-fetch client loop (ipfix.RPC): needs multicast discovery"})
	run.Finish()
}

// peerClientPhase exercises the client half of the peer fetch as far as it can run here: the real
// ipfix.RPCServer (port 8085, one per process) serves a cache filled by announcements, and
// ipfix.NewRPCClient / RPCClient.Get fetch many templates over ONE connection, each answer being kept
// the way the RPC loop keeps it (a shallow copy of the returned record). Every kept answer must equal
// the reference entry of its own (exporter, id) - immediately and still after all later fetches.
func peerClientPhase(run *mon.Run, snap []wire.Elem) {
	l, err := net.Listen("tcp", ":8085")
	if err != nil {
		run.Inconclusive("peer-client phase: port 8085 (fixed in ipfix.RPCServer) is taken on this machine: " + err.Error())
		return
	}
	l.Close()
	g := mon.NewRNG(run.Seed, "peerclient", 0)
	o := wire.GenOpts{Elems: snap, Varlen: true, Reduced: true, Options: true, MaxFields: 8, MaxStrLen: 12}
	served := ipfix.GetCache("")
	type key struct {
		addr []byte
		id   uint16
	}
	var keys []key
	ref := map[string]string{}
	for e := 0; e < 12; e++ {
		addr := wire.GenAddr(g)
		for k, n := 0, g.Range(2, 6); k < n; k++ {
			id := uint16(256 + g.Intn(40))
			if _, dup := ref[akey(addr, id)]; dup {
				continue
			}
			t := wire.GenTemplate(g, id, o)
			kind := wire.SetTemplate
			if t.Options {
				kind = wire.SetOptTemplate
			}
			b, _ := wire.EncodeFlow("ipfix", []uint32{1, 2, 3, 4}, []wire.Set{{Kind: kind, Templates: []*wire.Template{t}}})
			if _, err := ipfix.NewDecoder(net.IP(fullCap(addr)), b).Decode(served); err != nil {
				continue
			}
			keys = append(keys, key{addr, id})
			ref[akey(addr, id)] = tplText(t)
		}
	}
	go ipfix.RPCServer(served, &ipfix.RPCConfig{Enabled: true, Logger: log.New(io.Discard, "", 0)})
	var cl *ipfix.RPCClient
	for try := 0; try < 200 && cl == nil; try++ {
		if cl, err = ipfix.NewRPCClient("127.0.0.1"); err != nil {
			cl = nil
			time.Sleep(10 * time.Millisecond)
		}
	}
	if cl == nil {
		run.Inconclusive("peer-client phase: could not connect to ipfix.RPCServer on 127.0.0.1:8085: " + fmt.Sprint(err))
		return
	}
	type kept struct {
		k    key
		rec  ipfix.TemplateRecord // what m.insert(req.ID, req.IP, *tr) would store
		want string
	}
	var all []kept
	fetches := run.Pick(400, 4000)
	for i := 0; i < fetches; i++ {
		k := keys[g.Intn(len(keys))]
		unknown := g.Chance(1, 6)
		if unknown {
			k.id = uint16(300 + g.Intn(1000))
			if _, ok := ref[akey(k.addr, k.id)]; ok {
				unknown = false
			}
		}
		req := ipfix.RPCRequest{ID: k.id, IP: net.IP(fullCap(k.addr))}
		tr, err := cl.Get(req)
		run.Eval(1)
		run.Add("peer_client_fetches_over_one_connection", 1)
		want := ref[akey(k.addr, k.id)]
		got := ""
		if err == nil && tr != nil {
			got = recText(tr)
		}
		if got != want {
			run.Violation("hist:ipfix:peer-client-get", fmt.Sprintf("fetch %d over one RPCClient: Get(%x, %d) = %q (%v), the serving cache holds %q", i, k.addr, k.id, got, err, want),
				map[string]interface{}{"engine": "cachecheck/hist", "phase": "peer-client", "fetch": i, "exporter": mon.Hex(k.addr), "id": k.id})
			return
		}
		if err == nil && tr != nil {
			all = append(all, kept{k, *tr, want})
			run.Distinct(fmt.Sprintf("peer-client|%x|%d", k.addr, k.id))
		}
		// every answer kept so far is still what was fetched for ITS key
		if i%20 == 19 || i == fetches-1 {
			for j := range all {
				if now := recText(&all[j].rec); now != all[j].want {
					run.Violation("hist:ipfix:peer-client-kept-answer-changed", fmt.Sprintf("the template fetched for (%x, %d) and kept as the RPC loop keeps it (shallow copy of the answer) read %q when fetched and reads %q after %d later fetches over the same connection", all[j].k.addr, all[j].k.id, all[j].want, now, i-j),
						map[string]interface{}{"engine": "cachecheck/hist", "phase": "peer-client", "fetch": i, "kept_index": j})
					return
				}
			}
		}
	}
	run.Set("peer_client_keys_served", len(keys))
}

// ---------------------------------------------------------------- histories across real process restarts

type segReq struct {
	Case     *histCase `json:"case"`
	From, To int
	In, Out  string
}

type segRes struct {
	Kind string `json:"kind"`
	What string `json:"what"`
}

// histSegChild runs one collector life of a history in a process of its own.
func histSegChild(a mon.Args) {
	var req segReq
	b, err := os.ReadFile(a.Rest["req"])
	if err != nil || json.Unmarshal(b, &req) != nil {
		os.Exit(3)
	}
	k, w := runHistoryRange(req.Case, req.From, req.To, req.In, req.Out)
	rb, _ := json.Marshal(segRes{k, w})
	os.WriteFile(a.Rest["res"], rb, 0o644)
	os.Exit(0)
}

// crossProcessHistories: the template cache outlives the collector through its cache file, so "any
// earlier message" includes messages a previous process received. Each history is cut at 1-3 points;
// every part runs in a fresh process that loads the file its predecessor saved (what shutdown and
// start-up do), and the reference map predicts records and unknown-template reports exactly as for an
// uninterrupted history. Anything per-process (a random hash seed, derived unexported state) that
// leaks into the file layout or is lost through it shows here and only here.
func crossProcessHistories(run *mon.Run, snap []wire.Elem, sigPrefix string, n int) {
	self, err := os.Executable()
	if err != nil {
		run.HarnessError(err.Error())
		return
	}
	dir := filepath.Join(os.Getenv("VERIF_RUN"), "xproc")
	os.MkdirAll(dir, 0o755)
	var restarts, parts int64
	mon.ParallelFor(n, func(i int) {
		g := mon.NewRNG(run.Seed, "xproc", i)
		proto := []string{"ipfix", "nf9"}[i%2]
		var c *histCase
		for {
			c = genHistory(g, proto, snap, nil)
			if len(c.Msgs) >= 8 {
				break
			}
		}
		cuts := []int{}
		for k := g.Range(1, 3); k > 0; k-- {
			cuts = append(cuts, g.Range(1, len(c.Msgs)-1))
		}
		sort.Ints(cuts)
		cuts = append(cuts, len(c.Msgs))
		from, in := 0, ""
		run.Eval(1)
		nrec := 0
		for _, m := range c.Msgs {
			nrec += len(m.Expect)
		}
		if nrec > 0 {
			run.Distinct(fmt.Sprintf("xproc|%s|%d|%v", proto, len(c.Msgs), cuts))
		}
		for pi, to := range cuts {
			if to <= from {
				continue
			}
			base := filepath.Join(dir, fmt.Sprintf("h%d.p%d", i, pi))
			out := base + ".cache"
			rb, _ := json.Marshal(segReq{Case: c, From: from, To: to, In: in, Out: out})
			os.WriteFile(base+".req", rb, 0o644)
			cmd := exec.Command(self, "--prop", "C04", "--hist-seg-child", "1", "--req", base+".req", "--res", base+".res")
			cmd.SysProcAttr = &syscall.SysProcAttr{Pdeathsig: syscall.SIGKILL}
			// the lives of one history differ in their parallelism too (a restart on other hardware, another cpu-cap)
			cmd.Env = append(os.Environ(), fmt.Sprintf("GOMAXPROCS=%d", []int{4, 24, 2, 48, 16, 33}[(i+pi)%6]))
			outB, err := cmd.CombinedOutput()
			var res segRes
			b, rerr := os.ReadFile(base + ".res")
			if err != nil || rerr != nil || json.Unmarshal(b, &res) != nil {
				run.Violation(sigPrefix+":"+proto+":process-died", fmt.Sprintf("history %d part %d (messages %d..%d, after %d restarts): the process died: %v %s", i, pi, from, to, pi, err, clip(string(outB), 600)), c)
				return
			}
			atomic.AddInt64(&parts, 1)
			if res.Kind != "" {
				sig := sigPrefix + ":" + proto + ":" + res.Kind
				if pi > 0 {
					sig += ":after-restart"
				}
				run.Violation(sig, fmt.Sprintf("history %d, collector life %d (messages %d..%d, cache file loaded from the previous life: %v): %s", i, pi+1, from, to, in != "", res.What), c)
				return
			}
			os.Remove(base + ".req")
			os.Remove(base + ".res")
			if in != "" {
				os.Remove(in)
			}
			if pi > 0 {
				atomic.AddInt64(&restarts, 1)
			}
			from, in = to, out
		}
		if in != "" {
			os.Remove(in)
		}
	})
	run.Set("histories_across_process_restarts", n)
	run.Set("collector_lives_run_in_their_own_process", parts)
	run.Set("restarts_with_the_cache_file_carried_over", restarts)
}

// concurrentLookups: several workers decode at once. Keys that share a cache shard (eight chosen by the
// harness-side FNV, plus 56 others) each get their own definition; then 16 goroutines only LOOK UP -
// decode data sets and, for IPFIX, ask IRPC.Get - for 40 000 operations without any further
// announcement. Every lookup must see its own key's definition: another exporter's template, or
// "unknown", for a key that was announced and never changed is a C04 violation whatever the schedule.
func concurrentLookups(run *mon.Run) {
	for _, proto := range []string{"ipfix", "nf9"} {
		api := newCacheAPI(proto, "")
		var keys []concKey
		for i := 0; len(keys) < 8 && i < 100000; i++ {
			k := concKey{Addr: fullCap([]byte{10, 7, byte(i >> 8), byte(i)}), ID: uint16(256 + i%5)}
			if fnvKey(k.Addr, k.ID)%32 == 5 {
				keys = append(keys, k)
			}
		}
		for i := 0; i < 56; i++ {
			ad := make([]byte, 16)
			ad[0], ad[1], ad[14], ad[15] = 0x20, 0x01, byte(i), byte(i*7)
			k := concKey{Addr: fullCap([]byte{172, 20, byte(i), byte(200 - i)}), ID: uint16(300 + i%9)}
			if i%3 == 0 {
				k.Addr = fullCap(ad)
			}
			keys = append(keys, k)
		}
		for i, k := range keys {
			api.write(k, 10+i)
		}
		var bad []string
		var bmu sync.Mutex
		var wg sync.WaitGroup
		var ops int64
		for gi := 0; gi < 16; gi++ {
			wg.Add(1)
			go func(gi int) {
				defer wg.Done()
				g := mon.NewRNG(run.Seed, "conclookup-"+proto, gi)
				for n := 0; n < 2500; n++ {
					ki := g.Intn(len(keys))
					if g.Chance(1, 2) {
						ki = g.Intn(8) // the same-shard group
					}
					var v int
					var note, how string
					if proto == "ipfix" && g.Chance(1, 4) {
						v, note = api.get(keys[ki])
						how = "IRPC.Get"
					} else {
						v, note = api.read(keys[ki])
						how = "decoding a data set"
					}
					atomic.AddInt64(&ops, 1)
					if v != 10+ki {
						bmu.Lock()
						if len(bad) < 10 {
							bad = append(bad, fmt.Sprintf("%s for (%x, %d) observed definition v%d %s; this exporter announced v%d once and nobody announced anything since", how, keys[ki].Addr, keys[ki].ID, v, note, 10+ki))
						}
						bmu.Unlock()
					}
				}
			}(gi)
		}
		wg.Wait()
		run.Eval(1)
		run.Distinct("concurrent-lookups|" + proto)
		run.Add("concurrent_lookups_without_announcements", ops)
		if len(bad) > 0 {
			run.Violation("hist:"+proto+":concurrent-lookup-wrong-template", fmt.Sprintf("16 goroutines looking up 64 announced keys (8 of them in one shard): %s (%d such observations shown of the first 10)", bad[0], len(bad)),
				map[string]interface{}{"engine": "cachecheck/hist", "phase": "concurrent-lookups", "proto": proto, "observations": bad})
		}
	}
}

// concurrentAnnouncers: eight keys of one shard (and eight elsewhere), each owned by ONE goroutine that
// re-announces its key with a new definition and then decodes data for it, 1500 times. Nobody else ever
// announces that key, so the decode must use the definition just announced - whatever the other
// goroutines are doing to their own keys in the same shard at that moment (an announcement of one
// exporter must not undo another exporter's).
func concurrentAnnouncers(run *mon.Run) {
	for _, proto := range []string{"ipfix", "nf9"} {
		api := newCacheAPI(proto, "")
		var keys []concKey
		for i := 0; len(keys) < 8 && i < 100000; i++ {
			k := concKey{Addr: fullCap([]byte{10, 8, byte(i >> 8), byte(i)}), ID: uint16(256 + i%5)}
			if fnvKey(k.Addr, k.ID)%32 == 11 {
				keys = append(keys, k)
			}
		}
		for i := 0; i < 8; i++ {
			keys = append(keys, concKey{Addr: fullCap([]byte{172, 21, byte(i), byte(9 * i)}), ID: uint16(400 + i)})
		}
		var bad []string
		var bmu sync.Mutex
		var wg sync.WaitGroup
		var ops int64
		for gi := range keys {
			wg.Add(1)
			go func(gi int) {
				defer wg.Done()
				k := keys[gi]
				for v := 1; v <= 1500; v++ {
					api.write(k, v)
					got, note := api.read(k)
					atomic.AddInt64(&ops, 1)
					if got != v {
						bmu.Lock()
						if len(bad) < 10 {
							bad = append(bad, fmt.Sprintf("exporter (%x, %d) announced definition v%d and then sent data: decoded with v%d %s (nobody else announces this exporter's template)", k.Addr, k.ID, v, got, note))
						}
						bmu.Unlock()
					}
				}
			}(gi)
		}
		wg.Wait()
		run.Eval(1)
		run.Distinct("concurrent-announcers|" + proto)
		run.Add("concurrent_announce_then_decode_rounds", ops)
		if len(bad) > 0 {
			run.Violation("hist:"+proto+":concurrent-announcement-undone", fmt.Sprintf("16 goroutines, each the only announcer of its own key (8 keys in one shard): %s", bad[0]),
				map[string]interface{}{"engine": "cachecheck/hist", "phase": "concurrent-announcers", "proto": proto, "observations": bad})
		}
	}
}

// crowdedShard: a large site. 2600 (exporter, id) pairs that all fall into ONE of the cache's 32 shards (found with the
// harness-side FNV) plus 2600 spread over the others are announced, each with its own definition; then data of the
// first, the last and 200 other pairs is decoded. Every one of them is still in force - the property knows no
// capacity at which an announced template stops counting.
func crowdedShard(run *mon.Run) {
	for _, proto := range []string{"ipfix", "nf9"} {
		api := newCacheAPI(proto, "")
		var keys []concKey
		for i := 0; len(keys) < 2600 && i < 400000; i++ {
			k := concKey{Addr: fullCap([]byte{10, 20, 0, byte(1 + i%18)}), ID: uint16(256 + i/18)} // unique per i
			if fnvKey(k.Addr, k.ID)%32 == 7 {
				keys = append(keys, k)
			}
		}
		crowd := len(keys)
		for i := 0; i < 2600; i++ {
			keys = append(keys, concKey{Addr: fullCap([]byte{10, 21, byte(i / 250), byte(1 + i%250)}), ID: uint16(300 + i%11)})
		}
		seenKey := map[string]bool{}
		for i, k := range keys {
			if seenKey[akey(k.Addr, k.ID)] {
				run.HarnessError("crowded shard: the generator produced a key twice")
			}
			seenKey[akey(k.Addr, k.ID)] = true
			api.write(k, 1+i%60000)
		}
		bad := ""
		checked := 0
		for i, k := range keys {
			if !(i < 40 || i >= len(keys)-40 || i%13 == 0 || (i >= crowd-40 && i < crowd+40)) {
				continue
			}
			checked++
			if v, note := api.read(k); v != 1+i%60000 {
				bad = fmt.Sprintf("pair #%d (%x, %d) of %d announced pairs (%d of them in one shard): data decoded with v%d %s, announced was v%d", i, k.Addr, k.ID, len(keys), crowd, v, note, 1+i%60000)
				break
			}
		}
		run.Eval(1)
		run.Distinct("crowded-shard|" + proto)
		run.Add("pairs_announced_for_the_crowded_shard_check", int64(len(keys)))
		run.Add("pairs_decoded_after_the_crowd", int64(checked))
		if crowd < 2500 {
			run.HarnessError(fmt.Sprintf("only %d keys found for one shard", crowd))
		}
		if bad != "" {
			run.Violation("hist:"+proto+":announced-template-gone-in-a-crowd", bad, map[string]interface{}{"engine": "cachecheck/hist", "phase": "crowded-shard", "proto": proto})
		}
	}
}
