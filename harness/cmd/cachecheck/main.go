// cachecheck decides the template-cache properties: C04 (histories against a reference map,
// incl. hash-colliding keys), C10 (concurrent decode/dump/lookup: race detector + porcupine
// history check), C11 (dump/load round trip and loading arbitrary file contents).
package main

import (
	"fmt"
	"io"
	"log"
	"os"

	"verif/harness/mon"
)

func main() {
	args := mon.ParseArgs()
	log.SetOutput(io.Discard) // net/rpc logs every closed listener
	if _, ok := args.Rest["persist-probe-child"]; ok {
		persistProbeChild(args)
		return
	}
	if _, ok := args.Rest["hist-seg-child"]; ok {
		histSegChild(args)
		return
	}
	switch args.Prop {
	case "C04":
		histMain(args)
	case "C10":
		concMain(args)
	case "C11":
		persistMain(args)
	default:
		fmt.Println("HARNESS-ERROR cachecheck: unknown property", args.Prop)
		os.Exit(mon.ExitHarness)
	}
}
