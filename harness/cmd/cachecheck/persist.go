package main

import (
	"bytes"
	"encoding/json"
	"fmt"
	"net"
	"os"
	"os/exec"
	"path/filepath"
	"sort"
	"strings"
	"sync/atomic"
	"syscall"
	"time"

	"github.com/EdgeCast/vflow/ipfix"
	netflow9 "github.com/EdgeCast/vflow/netflow/v9"

	"verif/harness/mon"
	"verif/harness/wire"
)

// pkey is one exporter/template of a built cache with a data message that uses it.
type pkey struct {
	Addr []byte
	Tpl  *wire.Template
	Ann  []byte // announcing datagram
	Data []byte // data datagram (2 records)
}

type builtCache struct {
	proto string
	keys  []pkey
	api   *cacheAPI
}

func decodeRecs(api *cacheAPI, addr, dgram []byte) (recs []string, errText string, pn string) {
	defer func() {
		if p := recover(); p != nil {
			pn = fmt.Sprint(p)
		}
	}()
	if api.proto == "ipfix" {
		msg, err := ipfix.NewDecoder(net.IP(fullCap(addr)), dgram).Decode(api.ic)
		if err != nil {
			errText = err.Error()
		}
		if msg != nil {
			for _, ds := range msg.DataSets {
				var sb strings.Builder
				for _, f := range ds {
					sb.WriteString(wire.ExpField{ID: f.ID, PEN: f.EnterpriseNo, Canon: wire.Canon(f.Value)}.String())
				}
				recs = append(recs, sb.String())
			}
		}
	} else {
		msg, err := netflow9.NewDecoder(net.IP(fullCap(addr)), dgram).Decode(api.nc)
		if err != nil {
			errText = err.Error()
		}
		if msg != nil {
			for _, ds := range msg.DataSets {
				var sb strings.Builder
				for _, f := range ds {
					sb.WriteString(wire.ExpField{ID: f.ID, Canon: wire.Canon(f.Value)}.String())
				}
				recs = append(recs, sb.String())
			}
		}
	}
	return
}

// buildCache fills a fresh cache by decoding announcements of n templates from several exporters.
func buildCache(g *mon.RNG, proto string, n int, elems []wire.Elem) *builtCache {
	return buildCacheMax(g, proto, n, elems, 6)
}

func buildCacheMax(g *mon.RNG, proto string, n int, elems []wire.Elem, maxFields int) *builtCache {
	bc := &builtCache{proto: proto, api: newCacheAPI(proto, "")}
	o := wire.GenOpts{Elems: elems, Varlen: proto == "ipfix", Reduced: true, Options: true, MaxFields: maxFields, MaxStrLen: 10}
	if proto == "nf9" {
		o.OnlyPEN0, o.Varlen = true, false
	}
	nexp := 1 + n/8
	var exps [][]byte
	for i := 0; i < nexp; i++ {
		exps = append(exps, wire.GenAddr(g))
	}
	seen := map[string]bool{}
	for len(bc.keys) < n {
		addr := exps[g.Intn(len(exps))]
		id := uint16(g.Range(256, 256+n+8))
		if seen[akey(addr, id)] {
			continue
		}
		seen[akey(addr, id)] = true
		t := wire.GenTemplate(g, id, o)
		k := wire.SetTemplate
		if t.Options {
			k = wire.SetOptTemplate
		}
		ts := wire.Set{Kind: k, Templates: []*wire.Template{t}}
		ds := wire.GenDataSet(g, t, 2, o, 0)
		ds.Pad = 0
		if proto == "nf9" {
			ts.Pad = (4 - wire.SetLen(&ts)%4) % 4
		}
		ann, _ := wire.EncodeFlow(proto, []uint32{1, 2, 3, 4}, []wire.Set{ts})
		dat, _ := wire.EncodeFlow(proto, []uint32{5, 6, 7, 8}, []wire.Set{ds})
		decodeRecs(bc.api, addr, ann)
		bc.keys = append(bc.keys, pkey{addr, t, ann, dat})
	}
	return bc
}

type persistCase struct {
	Proto    string `json:"proto"`
	Kind     string `json:"kind"`
	Detail   string `json:"detail"`
	File     string `json:"file_content_hex,omitempty"`
	FileText string `json:"file_content,omitempty"`
	Judge    bool   `json:"only_saved_templates_judged"`
	Seed     int64  `json:"seed"`
	CacheNo  int    `json:"cache_no"`
	NTpl     int    `json:"templates"`
}

// shardProbe returns, per protocol, keys that land on every one of the 32 shards (harness-side FNV).
func shardProbes() []concKey {
	var out []concKey
	have := map[uint32]int{}
	for i := 0; len(out) < 32*2 && i < 200000; i++ {
		k := concKey{Addr: []byte{172, 16, byte(i >> 8), byte(i)}, ID: uint16(300 + i%7)}
		sh := fnvKey(k.Addr, k.ID) % 32
		if have[sh] < 2 {
			have[sh]++
			out = append(out, k)
		}
	}
	return out
}

var probes = shardProbes()

// checkLoaded runs every oracle on a cache loaded from content. orig maps cache key → template JSON
// of the saved cache (nil when "only saved templates" is not judged for this kind of corruption).
func checkLoaded(proto string, dir string, content []byte, bc *builtCache, before map[int][]string, judge bool, origEntries map[string]string) (kind, what string) {
	f := filepath.Join(dir, fmt.Sprintf("load-%d.json", atomic.AddInt64(&fileNo, 1)))
	if content != nil {
		if err := os.WriteFile(f, content, 0o644); err != nil {
			return "harness", err.Error()
		}
		defer os.Remove(f)
	}
	var api *cacheAPI
	func() {
		defer func() {
			if p := recover(); p != nil {
				kind, what = "load-panic", fmt.Sprintf("GetCache panicked: %v", p)
			}
		}()
		api = newCacheAPI(proto, f)
	}()
	if kind != "" {
		return
	}
	// (d) what it contains, before we add anything: dump it again and compare entry by entry
	if judge {
		f2 := f + ".again"
		var derr error
		func() {
			defer func() {
				if p := recover(); p != nil {
					kind, what = "unusable-panic:dump-after-load", fmt.Sprintf("Dump of the loaded cache panicked: %v", p)
				}
			}()
			derr = api.dump(f2)
		}()
		if kind != "" {
			return
		}
		if derr == nil {
			b, _ := os.ReadFile(f2)
			os.Remove(f2)
			for k, v := range cacheEntries(b) {
				if ov, ok := origEntries[k]; !ok {
					return "foreign-template", fmt.Sprintf("the loaded cache holds an entry %s that the saved cache did not contain: %s", k, clip(v, 200))
				} else if ov != v {
					return "altered-template", fmt.Sprintf("entry %s of the loaded cache is %s, the saved cache had %s", k, clip(v, 200), clip(ov, 200))
				}
			}
		}
		// every saved key decodes exactly as before, or is unknown
		for i, k := range bc.keys {
			if i%7 != 0 && len(bc.keys) > 40 {
				continue
			}
			recs, et, pn := decodeRecs(api, k.Addr, k.Data)
			if pn != "" {
				return "unusable-panic:decode", "decoding against the loaded cache panicked: " + pn
			}
			if len(recs) == 0 && strings.Contains(et, "unknown") {
				continue
			}
			if fmt.Sprint(recs) != fmt.Sprint(before[i]) {
				return "decodes-differently", fmt.Sprintf("data of exporter %x template %d decodes to %v after loading, %v before saving (%s)", k.Addr, k.Tpl.ID, recs, before[i], et)
			}
		}
	}
	// (c) usable: announce + decode on every shard, then dump
	for _, p := range probes {
		t := verTemplate(p.ID, 7)
		var pn string
		func() {
			defer func() {
				if r := recover(); r != nil {
					pn = fmt.Sprint(r)
				}
			}()
			api.write(p, 7)
			if v, note := api.read(p); v != 7 {
				pn = fmt.Sprintf("a template announced after loading is not used for the next data set (observed %d %s)", v, note)
			}
		}()
		_ = t
		if pn != "" {
			return "unusable-panic:use", fmt.Sprintf("using the loaded cache (exporter %x id %d, shard %d) failed: %s", p.Addr, p.ID, fnvKey(p.Addr, p.ID)%32, pn)
		}
	}
	func() {
		defer func() {
			if p := recover(); p != nil {
				kind, what = "unusable-panic:dump", fmt.Sprintf("Dump after use panicked: %v", p)
			}
		}()
		f3 := f + ".after"
		api.dump(f3)
		os.Remove(f3)
	}()
	return
}

var fileNo int64

// cacheEntries flattens a cache file into "shard/key" → template JSON.
func cacheEntries(b []byte) map[string]string {
	out := map[string]string{}
	var doc struct {
		Cache []*struct {
			Templates map[string]json.RawMessage
		}
	}
	if json.Unmarshal(b, &doc) != nil {
		return out
	}
	for i, sh := range doc.Cache {
		if sh == nil {
			continue
		}
		for k, v := range sh.Templates {
			var d struct{ Template json.RawMessage }
			json.Unmarshal(v, &d)
			_ = i
			out[k] = string(d.Template) // the key is the full exporter address and id: unique across shards
		}
	}
	return out
}

type corruption struct {
	kind, detail string
	content      []byte
	judge        bool
}

// structural returns single structural edits of a valid cache document.
func structural(valid []byte, g *mon.RNG) []corruption {
	var out []corruption
	var doc map[string]interface{}
	dec := json.NewDecoder(bytes.NewReader(valid))
	dec.UseNumber()
	if dec.Decode(&doc) != nil {
		return nil
	}
	emit := func(detail string, judge bool, edit func(d map[string]interface{})) {
		var d map[string]interface{}
		dd := json.NewDecoder(bytes.NewReader(valid))
		dd.UseNumber()
		dd.Decode(&d)
		edit(d)
		b, err := json.Marshal(d)
		if err == nil {
			out = append(out, corruption{"structural", detail, b, judge})
		}
	}
	cache := func(d map[string]interface{}) []interface{} { c, _ := d["Cache"].([]interface{}); return c }
	n := len(cache(doc))
	for _, i := range []int{0, 1, n / 2, n - 1} {
		i := i
		if i < 0 || i >= n {
			continue
		}
		emit(fmt.Sprintf("shard %d dropped (31 entries)", i), true, func(d map[string]interface{}) {
			c := cache(d)
			d["Cache"] = append(append([]interface{}{}, c[:i]...), c[i+1:]...)
		})
		emit(fmt.Sprintf("shard %d null", i), true, func(d map[string]interface{}) { cache(d)[i] = nil })
		emit(fmt.Sprintf("shard %d Templates null", i), true, func(d map[string]interface{}) {
			cache(d)[i].(map[string]interface{})["Templates"] = nil
		})
		emit(fmt.Sprintf("shard %d Templates member missing", i), true, func(d map[string]interface{}) {
			delete(cache(d)[i].(map[string]interface{}), "Templates")
		})
		emit(fmt.Sprintf("shard %d Templates []", i), true, func(d map[string]interface{}) {
			cache(d)[i].(map[string]interface{})["Templates"] = []interface{}{}
		})
		emit(fmt.Sprintf("shard %d Templates {}", i), true, func(d map[string]interface{}) {
			cache(d)[i].(map[string]interface{})["Templates"] = map[string]interface{}{}
		})
		emit(fmt.Sprintf("shard %d Templates a string", i), true, func(d map[string]interface{}) {
			cache(d)[i].(map[string]interface{})["Templates"] = "x"
		})
		emit(fmt.Sprintf("shard %d is a number", i), true, func(d map[string]interface{}) { cache(d)[i] = json.Number("7") })
		emit(fmt.Sprintf("shard %d is {}", i), true, func(d map[string]interface{}) { cache(d)[i] = map[string]interface{}{} })
	}
	emit("Cache null", true, func(d map[string]interface{}) { d["Cache"] = nil })
	emit("Cache []", true, func(d map[string]interface{}) { d["Cache"] = []interface{}{} })
	emit("Cache missing", true, func(d map[string]interface{}) { delete(d, "Cache") })
	emit("Cache is an object", true, func(d map[string]interface{}) { d["Cache"] = map[string]interface{}{} })
	emit("Cache with 33 entries", true, func(d map[string]interface{}) {
		d["Cache"] = append(cache(d), map[string]interface{}{"Templates": map[string]interface{}{}})
	})
	emit("Cache with 33 entries, last null", true, func(d map[string]interface{}) { d["Cache"] = append(cache(d), nil) })
	emit("Cache with 1 entry", true, func(d map[string]interface{}) { d["Cache"] = cache(d)[:1] })
	emit("Cache of 32 nulls", true, func(d map[string]interface{}) { d["Cache"] = make([]interface{}, 32) })
	for _, v := range []interface{}{nil, json.Number("0"), json.Number("31"), json.Number("33"), json.Number("-1"), "32", json.Number("1099511627776"), json.Number("32.0"), json.Number("3.2e1"), true} {
		v := v
		emit(fmt.Sprintf("ShardNo = %v (%T)", v, v), true, func(d map[string]interface{}) { d["ShardNo"] = v })
	}
	emit("ShardNo missing", true, func(d map[string]interface{}) { delete(d, "ShardNo") })
	// edits inside one template entry (these may legitimately change a template: not judged for content)
	editEntry := func(detail string, f func(e map[string]interface{})) {
		emit(detail, false, func(d map[string]interface{}) {
			for _, sh := range cache(d) {
				m, _ := sh.(map[string]interface{})
				t, _ := m["Templates"].(map[string]interface{})
				for _, e := range t {
					if em, ok := e.(map[string]interface{}); ok {
						f(em)
						return
					}
				}
			}
		})
	}
	editEntry("an entry without Template member", func(e map[string]interface{}) { delete(e, "Template") })
	editEntry("an entry with Template null", func(e map[string]interface{}) { e["Template"] = nil })
	editEntry("an entry with FieldSpecifiers null", func(e map[string]interface{}) {
		if t, ok := e["Template"].(map[string]interface{}); ok {
			t["FieldSpecifiers"] = nil
			t["ScopeFieldSpecifiers"] = nil
		}
	})
	editEntry("an entry with huge lengths", func(e map[string]interface{}) {
		if t, ok := e["Template"].(map[string]interface{}); ok {
			if fs, ok := t["FieldSpecifiers"].([]interface{}); ok && len(fs) > 0 {
				fs[0].(map[string]interface{})["Length"] = json.Number("65535")
			}
		}
	})
	editEntry("an entry with a negative length", func(e map[string]interface{}) {
		if t, ok := e["Template"].(map[string]interface{}); ok {
			if fs, ok := t["FieldSpecifiers"].([]interface{}); ok && len(fs) > 0 {
				fs[0].(map[string]interface{})["Length"] = json.Number("-4")
			}
		}
	})
	editEntry("an entry with Timestamp a string", func(e map[string]interface{}) { e["Timestamp"] = "now" })
	emit("a non-hex, non-numeric map key added", false, func(d map[string]interface{}) {
		m := cache(d)[0].(map[string]interface{})
		t, ok := m["Templates"].(map[string]interface{})
		if ok {
			t["zz not a key"] = map[string]interface{}{"Template": map[string]interface{}{"TemplateID": json.Number("999")}, "Timestamp": json.Number("1")}
		}
	})
	// document-level
	out = append(out, corruption{"structural", "whole document is null", []byte("null"), true},
		corruption{"structural", "whole document is []", []byte("[]"), true},
		corruption{"structural", "whole document is {}", []byte("{}"), true},
		corruption{"structural", "whole document is 32", []byte("32"), true},
		corruption{"structural", "document twice", append(append([]byte{}, valid...), valid...), true},
		corruption{"structural", "trailing garbage", append(append([]byte{}, valid...), []byte("}]x")...), true},
		corruption{"structural", "empty file", []byte{}, true},
		corruption{"structural", "deeply nested arrays", []byte(strings.Repeat("[", 20000)), true},
		corruption{"structural", `{"ShardNo":32}`, []byte(`{"ShardNo":32}`), true},
		corruption{"structural", `{"ShardNo":32,"Cache":[null]}`, []byte(`{"ShardNo":32,"Cache":[null]}`), true},
		corruption{"structural", "duplicated Cache member, second null", append(append([]byte{}, valid[:len(valid)-1]...), []byte(`,"Cache":null}`)...), true},
		corruption{"structural", "duplicated Cache member, second short", append(append([]byte{}, valid[:len(valid)-1]...), []byte(`,"Cache":[{"Templates":{}}]}`)...), true})
	_ = g
	return out
}

func persistMain(args mon.Args) {
	if _, ok := args.Rest["kill-child"]; ok {
		killChild(args)
		return
	}
	run := mon.NewRun("C11", "cachecheck/persist", "fault_enumeration")
	snap, err := wire.LoadSnapshot(mon.Root())
	if err != nil {
		run.HarnessError(err.Error())
		run.Finish()
	}
	dir := os.Getenv("VERIF_RUN")
	if args.Replay != "" {
		d, err := mon.LoadReplay(args.Replay)
		if err != nil {
			run.HarnessError(err.Error())
			run.Finish()
		}
		var pc persistCase
		json.Unmarshal(d.Case, &pc)
		g := mon.NewRNG(pc.Seed, "persist-cache", pc.CacheNo)
		bc := buildCache(g, pc.Proto, pc.NTpl, snap)
		before := map[int][]string{}
		for i, k := range bc.keys {
			before[i], _, _ = decodeRecs(bc.api, k.Addr, k.Data)
		}
		f := filepath.Join(dir, "orig.json")
		bc.api.dump(f)
		valid, _ := os.ReadFile(f)
		content := mon.UnHex(pc.File)
		if pc.FileText != "" {
			content = []byte(pc.FileText)
		}
		if pc.Kind == "absent" {
			content = nil
		}
		run.Eval(1)
		run.DistinctBulk(2)
		if k, w := checkLoaded(pc.Proto, dir, content, bc, before, pc.Judge, cacheEntries(valid)); k != "" {
			run.Violation(d.Signature, w, pc)
		} else {
			fmt.Println("replay: the case no longer violates")
		}
		run.Finish()
	}
	sizes := []int{1, 3, 12, 40}
	if run.Thorough() {
		sizes = []int{1, 2, 3, 8, 12, 40, 150, 600, 2000}
	}
	var crashPoints, structN, byteN, roundTrips int64
	cacheNo := 0
	for _, proto := range []string{"ipfix", "nf9"} {
		for _, n := range sizes {
			cacheNo++
			cn := cacheNo
			g := mon.NewRNG(run.Seed, "persist-cache", cn)
			bc := buildCache(g, proto, n, snap)
			before := map[int][]string{}
			for i, k := range bc.keys {
				r, et, pn := decodeRecs(bc.api, k.Addr, k.Data)
				if pn != "" || len(r) == 0 {
					run.HarnessError(fmt.Sprintf("generator: key %d does not decode before saving: %s %s", i, et, pn))
				}
				before[i] = r
			}
			f := filepath.Join(dir, fmt.Sprintf("orig-%d.json", cn))
			if err := bc.api.dump(f); err != nil {
				run.Violation("persist:dump-error", "Dump of a cache built by decoding failed: "+err.Error(), persistCase{Proto: proto, Seed: run.Seed, CacheNo: cn, NTpl: n})
				continue
			}
			valid, _ := os.ReadFile(f)
			orig := cacheEntries(valid)
			if len(orig) != n {
				run.HarnessError(fmt.Sprintf("cache file lists %d entries, %d templates were announced", len(orig), n))
			}
			mk := func(c corruption) persistCase {
				pc := persistCase{Proto: proto, Kind: c.kind, Detail: c.detail, Judge: c.judge, Seed: run.Seed, CacheNo: cn, NTpl: n}
				if len(c.content) < 20000 {
					pc.File = mon.Hex(c.content)
				} else {
					pc.Detail += fmt.Sprintf(" (content of %d octets not stored: regenerate from seed)", len(c.content))
				}
				return pc
			}
			// (a) round trip: every key decodes exactly as before, nothing is unknown
			{
				roundTrips++
				run.Eval(1)
				api := newCacheAPI(proto, f)
				for i, k := range bc.keys {
					recs, et, pn := decodeRecs(api, k.Addr, k.Data)
					if pn != "" || fmt.Sprint(recs) != fmt.Sprint(before[i]) {
						run.Violation("persist:round-trip", fmt.Sprintf("after Dump and GetCache, data of exporter %x template %d decodes to %v (%s %s); before saving it decoded to %v", k.Addr, k.Tpl.ID, recs, et, pn, before[i]),
							mk(corruption{"round-trip", "the file exactly as Dump wrote it", valid, true}))
						break
					}
				}
				run.Distinct(fmt.Sprintf("roundtrip|%s|%d", proto, n))
			}
			// degenerate entries: a hand-edited or bit-flipped file in which templates describe nothing (all field
			// lengths 0, no field specifiers, counts that disagree). Data for those keys must still come back -
			// as records, as an error, as unknown - and decoding must RETURN: each edit is probed in a child
			// process under a CPU limit, so that a decode that never ends is an observation, not a hung check
			if n <= 12 {
				degenerateEntries(run, proto, dir, cn, n, bc, valid, mk)
			}
			// absent file / directory instead of a file
			for _, c := range []corruption{{"absent", "no such file", nil, true}} {
				run.Eval(1)
				if k, w := checkLoaded(proto, dir, c.content, bc, before, true, orig); k != "" {
					run.Violation("persist:"+k, c.detail+": "+w, mk(c))
				}
			}
			// (b) every crash point of the truncate-then-write: every prefix (stride above 64 KiB)
			step := 1
			if len(valid) > 65536 {
				step = len(valid) / 20000
			}
			var cuts []int
			for c := 0; c < len(valid); c += step {
				cuts = append(cuts, c)
			}
			for c := len(valid) - 64; c < len(valid); c++ {
				if c > 0 && step > 1 {
					cuts = append(cuts, c)
				}
			}
			mon.ParallelFor(len(cuts), func(i int) {
				cut := cuts[i]
				c := corruption{"crash-prefix", fmt.Sprintf("first %d of %d octets (crash while saving)", cut, len(valid)), valid[:cut], true}
				run.Eval(1)
				atomic.AddInt64(&crashPoints, 1)
				if k, w := checkLoaded(proto, dir, c.content, bc, before, true, orig); k != "" {
					run.Violation("persist:"+k+":crash-prefix", c.detail+": "+w, mk(c))
				}
			})
			run.DistinctBulk(int64(len(cuts)))
			// (c) structural single edits
			sc := structural(valid, g)
			mon.ParallelFor(len(sc), func(i int) {
				c := sc[i]
				run.Eval(1)
				atomic.AddInt64(&structN, 1)
				if k, w := checkLoaded(proto, dir, c.content, bc, before, c.judge, orig); k != "" {
					run.Violation("persist:"+k+":"+sigDetail(c.detail), c.detail+": "+w, mk(c))
				}
				run.Distinct("structural|" + proto + "|" + c.detail + fmt.Sprint(n))
			})
			// (d) byte-level corruptions
			nb := run.Pick(300, 20000)
			if len(valid) > 200000 {
				nb /= 10
			}
			mon.ParallelFor(nb, func(i int) {
				gg := mon.NewRNG(run.Seed, fmt.Sprintf("persist-bytes-%d", cn), i)
				m := append([]byte{}, valid...)
				var detail string
				for k := gg.Range(1, 3); k > 0; k-- {
					switch gg.Intn(4) {
					case 0:
						p := gg.Intn(len(m))
						m[p] ^= 1 << uint(gg.Intn(8))
						detail += fmt.Sprintf("bit flip at %d; ", p)
					case 1:
						p := gg.Intn(len(m) + 1)
						ins := gg.Bytes(gg.Range(1, 6))
						if gg.Bool() {
							ins = []byte([]string{"null", "[]", "{}", ",", "\"", "0", "-1", ":"}[gg.Intn(8)])
						}
						m = append(m[:p], append(ins, m[p:]...)...)
						detail += fmt.Sprintf("insert %q at %d; ", ins, p)
					case 2:
						p := gg.Intn(len(m))
						q := p + gg.Range(1, 40)
						if q > len(m) {
							q = len(m)
						}
						m = append(m[:p], m[q:]...)
						detail += fmt.Sprintf("delete %d..%d; ", p, q)
					case 3:
						p := gg.Intn(len(m))
						m[p] = []byte("{}[],:\"0n")[gg.Intn(9)]
						detail += fmt.Sprintf("overwrite at %d; ", p)
					}
				}
				c := corruption{"bytes", detail, m, false}
				run.Eval(1)
				atomic.AddInt64(&byteN, 1)
				if k, w := checkLoaded(proto, dir, c.content, bc, before, false, orig); k != "" {
					run.Violation("persist:"+k+":bytes", c.detail+": "+w, mk(c))
				}
			})
			run.DistinctBulk(int64(nb))
			if cn == 2 {
				run.Sample(map[string]interface{}{"proto": proto, "templates": n, "saved_file": clip(string(valid), 500), "crash_prefix_example": string(valid[:len(valid)/3])[:min(200, len(valid)/3)]})
			}
			os.Remove(f)
		}
	}
	// save histories on ONE file: a restart cycle saves over the file of the previous cycle, whose cache may
	// have been larger, smaller or equal; what is loaded must be exactly the cache saved last
	var histN int64
	{
		type stage struct{ n, maxFields int }
		orders := [][]stage{{{40, 12}, {3, 2}}, {{3, 2}, {40, 12}}, {{12, 6}, {12, 6}}, {{30, 10}, {1, 1}, {8, 4}}, {{1, 1}, {1, 1}}, {{25, 8}, {24, 8}, {23, 8}, {2, 1}}}
		if run.Thorough() {
			for k := 0; k < 60; k++ {
				g := mon.NewRNG(run.Seed, "persist-hist-order", k)
				var o []stage
				for j, m := 0, g.Range(2, 6); j < m; j++ {
					o = append(o, stage{g.Range(1, 200), g.Range(1, 20)})
				}
				orders = append(orders, o)
			}
		}
		for oi, order := range orders {
			for _, proto := range []string{"ipfix", "nf9"} {
				f := filepath.Join(dir, fmt.Sprintf("hist-%d-%s.json", oi, proto))
				var desc []string
				for si, st := range order {
					g := mon.NewRNG(run.Seed, fmt.Sprintf("persist-hist-%d-%s", oi, proto), si)
					small := snap
					bc := buildCacheMax(g, proto, st.n, small, st.maxFields)
					before := map[int][]string{}
					for i, k := range bc.keys {
						before[i], _, _ = decodeRecs(bc.api, k.Addr, k.Data)
					}
					if err := bc.api.dump(f); err != nil {
						run.Violation("persist:dump-error", "Dump over an existing file failed: "+err.Error(), persistCase{Proto: proto, Kind: "save-history", Seed: run.Seed})
						break
					}
					fi, _ := os.Stat(f)
					desc = append(desc, fmt.Sprintf("save #%d: %d templates ≤%d fields → %d octets", si, st.n, st.maxFields, fi.Size()))
					run.Eval(1)
					histN++
					api := newCacheAPI(proto, f)
					bad := ""
					for i, k := range bc.keys {
						recs, et, pn := decodeRecs(api, k.Addr, k.Data)
						if pn != "" || fmt.Sprint(recs) != fmt.Sprint(before[i]) {
							bad = fmt.Sprintf("after %s and a load, data of exporter %x template %d decodes to %v (%s %s); before the last save it decoded to %v", strings.Join(desc, "; "), k.Addr, k.Tpl.ID, recs, et, pn, before[i])
							break
						}
					}
					if bad != "" {
						content, _ := os.ReadFile(f)
						pc := persistCase{Proto: proto, Kind: "save-history", Detail: strings.Join(desc, "; "), Judge: true, Seed: run.Seed, NTpl: st.n}
						if len(content) < 20000 {
							pc.File = mon.Hex(content)
						}
						run.Violation("persist:round-trip:save-over-existing-file", bad, pc)
						break
					}
					run.Distinct(fmt.Sprintf("save-history|%s|%d|%d", proto, oi, si))
				}
				os.Remove(f)
			}
		}
	}
	run.Add("saves_over_an_existing_file", histN)
	if args.Replay == "" {
		minimalRedefinitions(run, dir, snap)
		largeFiles(run, dir, snap)
	}

	// real-crash confirmation: a child dumping in a loop is SIGKILLed and the leftover file is loaded
	kills := run.Pick(12, 200)
	var killLeft int64
	self, _ := os.Executable()
	mon.ParallelFor(kills, func(i int) {
		g := mon.NewRNG(run.Seed, "persist-kill", i)
		proto := []string{"ipfix", "nf9"}[i%2]
		f := filepath.Join(dir, fmt.Sprintf("kill-%d.json", i))
		cmd := exec.Command(self, "--prop", "C11", "--kill-child", "1", "--seed", fmt.Sprint(run.Seed), "--file", f, "--proto", proto)
		cmd.SysProcAttr = &syscall.SysProcAttr{Pdeathsig: syscall.SIGKILL}
		if err := cmd.Start(); err != nil {
			run.HarnessError(err.Error())
			return
		}
		// wait until the child has written the file at least once, then kill at a PRNG-chosen moment
		for k := 0; k < 2000; k++ {
			if st, err := os.Stat(f + ".started"); err == nil && st.Size() >= 0 {
				break
			}
			time.Sleep(2 * time.Millisecond)
		}
		time.Sleep(time.Duration(g.Intn(30000)) * time.Microsecond)
		cmd.Process.Kill()
		cmd.Wait()
		content, err := os.ReadFile(f)
		if err != nil {
			return
		}
		gg := mon.NewRNG(run.Seed, "persist-kill-cache", 0)
		bc := buildCache(gg, proto, 300, snap)
		full := filepath.Join(dir, fmt.Sprintf("kill-%d.full.json", i))
		bc.api.dump(full)
		valid, _ := os.ReadFile(full)
		os.Remove(full)
		before := map[int][]string{}
		for j, k := range bc.keys {
			before[j], _, _ = decodeRecs(bc.api, k.Addr, k.Data)
		}
		run.Eval(1)
		if len(content) < len(valid) {
			atomic.AddInt64(&killLeft, 1)
		}
		run.Distinct(fmt.Sprintf("kill|%d", len(content)))
		if k, w := checkLoaded(proto, dir, content, bc, before, true, cacheEntries(valid)); k != "" {
			run.Violation("persist:"+k+":sigkill", fmt.Sprintf("file of %d octets left by a process killed while saving (complete file: %d): %s", len(content), len(valid), w),
				persistCase{Proto: proto, Kind: "sigkill", Detail: "left by SIGKILL", File: mon.Hex(content[:min(len(content), 20000)]), Judge: true, Seed: run.Seed, NTpl: 300})
		}
		os.Remove(f)
		os.Remove(f + ".started")
	})
	run.Add("crash_prefixes_loaded", crashPoints)
	run.Add("structural_edits_loaded", structN)
	run.Add("byte_level_corruptions_loaded", byteN)
	run.Add("round_trips", roundTrips)
	run.Add("sigkill_cycles", int64(kills))
	run.Add("sigkill_cycles_that_left_a_partial_file", killLeft)
	run.Set("shard_probe_keys", len(probes))
	if args.Replay == "" {
		crossProcessHistories(run, snap, "persist:xproc", run.Pick(60, 1000))
	}
	run.SetRule("caches built by decoding generated announcements (1..40 templates quick, ..2000 thorough; plain/options, IPv4/mapped/IPv6 exporters; ipfix and netflow v9). Faults enumerated: EVERY prefix length of the dump file (every crash point of truncate-then-write; stride above 64 KiB), real SIGKILLs of a process dumping in a loop, ~70 single structural edits of the valid document (shards dropped/null/wrong type, Templates null/[]/{}, Cache null/[]/31/33 entries, ShardNo absent/0/31/33/-1/'32'/2^40, entry-level edits, duplicated members, whole-document forms), absent file, seeded byte-level flips/inserts/deletes. Oracles per load: GetCache does not panic; the loaded cache re-dumped holds only entries equal to saved ones (prefix/structural faults); every saved key decodes as before or is unknown; announce+decode works on all 32 shards (64 probe keys, two per shard, chosen by harness-side FNV) and Dump works afterwards; the unmodified file round-trips every key; save histories on one file (larger→smaller, smaller→larger, equal, several steps) must load back as exactly the cache saved last; three-life histories on one file in which the second life re-announces some templates with a minimal difference (one field's enterprise number, element id or length, two fields swapped, the scope split moved, or none) and saves, and the third must decode as the second did; caches grown until their file passes 9 and 18 MiB (thorough: 36 and 72) round-trip with a sample of 300 keys; 60-1000 exporter histories are cut at 1-3 points and every part runs in a process of its own on the cache file its predecessor saved (a real restart), with records and unknown-template reports predicted as for an uninterrupted history; 8 degenerate-entry edits applied to every entry (all lengths 0 or 65535, specifiers []/null/missing, counts 0/65535, empty template) are probed in a child process under a 10 s CPU limit: GetCache must not panic and decoding every key's data must return without a panic. distinct = (kind, position/edit)")
	run.Assume("a byte flip inside a digit legitimately yields a different template: byte-level corruptions are judged for 'no crash, still usable' only")
	run.Finish()
}

func sigDetail(d string) string {
	// strip shard numbers so that one defect has one signature
	f := strings.Fields(d)
	var out []string
	for _, w := range f {
		if len(w) > 0 && w[0] >= '0' && w[0] <= '9' && strings.HasPrefix(d, "shard") {
			continue
		}
		out = append(out, w)
	}
	return strings.Join(out, "-")
}

// killChild dumps a 300-template cache in a loop until killed.
func killChild(a mon.Args) {
	var seed int64
	fmt.Sscan(a.Rest["seed"], &seed)
	snap, err := wire.LoadSnapshot(mon.Root())
	if err != nil {
		os.Exit(3)
	}
	g := mon.NewRNG(seed, "persist-kill-cache", 0)
	bc := buildCache(g, a.Rest["proto"], 300, snap)
	f := a.Rest["file"]
	bc.api.dump(f)
	os.WriteFile(f+".started", []byte("1"), 0o644)
	for {
		bc.api.dump(f)
	}
}

var _ = sort.Strings

// ---------------------------------------------------------------- degenerate template entries, probed in a child

type probeKey struct {
	Addr string `json:"addr"`
	Data string `json:"data"`
}

type probeReq struct {
	Proto string     `json:"proto"`
	File  string     `json:"file"`
	Keys  []probeKey `json:"keys"`
}

// persistProbeChild loads the file and decodes every key's data, under RLIMIT_CPU / RLIMIT_AS.
func persistProbeChild(a mon.Args) {
	syscall.Setrlimit(syscall.RLIMIT_CPU, &syscall.Rlimit{Cur: 10, Max: 12})
	syscall.Setrlimit(syscall.RLIMIT_AS, &syscall.Rlimit{Cur: 2 << 30, Max: 2 << 30})
	var req probeReq
	b, err := os.ReadFile(a.Rest["req"])
	if err != nil || json.Unmarshal(b, &req) != nil {
		os.Exit(3)
	}
	var api *cacheAPI
	func() {
		defer func() {
			if p := recover(); p != nil {
				fmt.Printf("LOADPANIC %v\n", p)
				os.Exit(0)
			}
		}()
		api = newCacheAPI(req.Proto, req.File)
	}()
	for i, k := range req.Keys {
		fmt.Printf("KEY %d\n", i)
		recs, et, pn := decodeRecs(api, mon.UnHex(k.Addr), mon.UnHex(k.Data))
		if pn != "" {
			fmt.Printf("PANIC %d %s\n", i, pn)
			continue
		}
		fmt.Printf("RESULT %d records=%d error=%q\n", i, len(recs), et)
	}
	fmt.Println("DONE")
	os.Exit(0)
}

func degenerateEntries(run *mon.Run, proto, dir string, cn, n int, bc *builtCache, valid []byte, mk func(corruption) persistCase) {
	self, err := os.Executable()
	if err != nil {
		run.HarnessError(err.Error())
		return
	}
	tplOf := func(e interface{}) map[string]interface{} {
		em, _ := e.(map[string]interface{})
		t, _ := em["Template"].(map[string]interface{})
		return t
	}
	setLens := func(t map[string]interface{}, member string, v string) {
		fs, _ := t[member].([]interface{})
		for _, f := range fs {
			if fm, ok := f.(map[string]interface{}); ok {
				fm["Length"] = json.Number(v)
			}
		}
	}
	edits := []struct {
		detail string
		f      func(t map[string]interface{})
	}{
		{"every field Length 0 in every entry", func(t map[string]interface{}) {
			setLens(t, "FieldSpecifiers", "0")
			setLens(t, "ScopeFieldSpecifiers", "0")
		}},
		{"FieldSpecifiers and ScopeFieldSpecifiers [] in every entry", func(t map[string]interface{}) {
			t["FieldSpecifiers"], t["ScopeFieldSpecifiers"] = []interface{}{}, []interface{}{}
		}},
		{"FieldSpecifiers and ScopeFieldSpecifiers null in every entry", func(t map[string]interface{}) {
			t["FieldSpecifiers"], t["ScopeFieldSpecifiers"] = nil, nil
		}},
		{"FieldSpecifiers and ScopeFieldSpecifiers members removed from every entry", func(t map[string]interface{}) {
			delete(t, "FieldSpecifiers")
			delete(t, "ScopeFieldSpecifiers")
		}},
		{"FieldCount and ScopeFieldCount 0 in every entry", func(t map[string]interface{}) {
			t["FieldCount"], t["ScopeFieldCount"] = json.Number("0"), json.Number("0")
		}},
		{"FieldCount 65535 in every entry", func(t map[string]interface{}) { t["FieldCount"] = json.Number("65535") }},
		{"every field Length 65535 in every entry", func(t map[string]interface{}) { setLens(t, "FieldSpecifiers", "65535") }},
		{"Template {} in every entry", func(t map[string]interface{}) {
			for k := range t {
				delete(t, k)
			}
		}},
	}
	for ei, ed := range edits {
		var doc map[string]interface{}
		dec := json.NewDecoder(bytes.NewReader(valid))
		dec.UseNumber()
		if dec.Decode(&doc) != nil {
			run.HarnessError("the valid cache file does not parse")
			return
		}
		c, _ := doc["Cache"].([]interface{})
		for _, sh := range c {
			m, _ := sh.(map[string]interface{})
			ts, _ := m["Templates"].(map[string]interface{})
			for _, e := range ts {
				if t := tplOf(e); t != nil {
					ed.f(t)
				}
			}
		}
		content, _ := json.Marshal(doc)
		base := filepath.Join(dir, fmt.Sprintf("degenerate-%d-%d", cn, ei))
		os.WriteFile(base+".json", content, 0o644)
		req := probeReq{Proto: proto, File: base + ".json"}
		for _, k := range bc.keys {
			req.Keys = append(req.Keys, probeKey{mon.Hex(k.Addr), mon.Hex(k.Data)})
		}
		rb, _ := json.Marshal(req)
		os.WriteFile(base+".req", rb, 0o644)
		cmd := exec.Command(self, "--prop", "C11", "--persist-probe-child", "1", "--req", base+".req")
		cmd.SysProcAttr = &syscall.SysProcAttr{Pdeathsig: syscall.SIGKILL}
		var out bytes.Buffer
		cmd.Stdout, cmd.Stderr = &out, &out
		run.Eval(1)
		run.Distinct(fmt.Sprintf("degenerate|%s|%d|%d", proto, n, ei))
		run.Add("degenerate_entry_files_probed_in_a_child", 1)
		done := make(chan error, 1)
		if err := cmd.Start(); err != nil {
			run.HarnessError(err.Error())
			return
		}
		go func() { done <- cmd.Wait() }()
		var werr error
		select {
		case werr = <-done:
		case <-time.After(3 * time.Minute):
			cmd.Process.Kill()
			<-done
			run.Inconclusive(fmt.Sprintf("degenerate entries (%s, %s): the probing child hit the wall-clock guard", proto, ed.detail))
			continue
		}
		txt := out.String()
		pc := mk(corruption{"degenerate", ed.detail, content, false})
		lastKey := "none"
		for _, l := range strings.Split(txt, "\n") {
			if strings.HasPrefix(l, "KEY ") {
				lastKey = strings.TrimPrefix(l, "KEY ")
			}
		}
		switch {
		case strings.Contains(txt, "LOADPANIC"):
			run.Violation("persist:load-panic", ed.detail+": GetCache panicked: "+clip(txt, 300), pc)
		case werr != nil || !strings.Contains(txt, "DONE"):
			why := fmt.Sprint(werr)
			if strings.Contains(why, "CPU time limit") || strings.Contains(why, "killed") {
				why += " (10 s of CPU were not enough: the decode does not return)"
			}
			run.Violation("persist:decode-after-load-does-not-return", fmt.Sprintf("%s: GetCache accepted the file, and decoding the data of key %s (a %d-octet datagram) against the loaded cache ended the process: %s; %s", ed.detail, lastKey, len(bc.keys[0].Data), why, clip(lastLines(txt, 6), 500)), pc)
		case strings.Contains(txt, "PANIC "):
			run.Violation("persist:unusable-panic:decode", ed.detail+": decoding against the loaded cache panicked: "+clip(txt[strings.Index(txt, "PANIC "):], 300), pc)
		}
		os.Remove(base + ".json")
		os.Remove(base + ".req")
	}
}

func lastLines(s string, n int) string {
	l := strings.Split(strings.TrimSpace(s), "\n")
	if len(l) > n {
		l = l[len(l)-n:]
	}
	return strings.Join(l, " | ")
}

// minimalRedefinitions: three collector lives on one file. Life 1 announces and saves. Life 2 loads the
// file and the exporters re-announce some templates with the smallest possible difference - one field's
// enterprise number, element id or length, two fields swapped, the scope/option split moved, or no
// difference at all - and nothing else happens before it saves. Life 3 loads: every key's data must
// decode exactly as it did at the end of life 2. (A save that is skipped or abridged because "nothing
// changed" shows here.)
func minimalRedefinitions(run *mon.Run, dir string, snap []wire.Elem) {
	var n int64
	for _, proto := range []string{"ipfix", "nf9"} {
		for round := 0; round < run.Pick(12, 200); round++ {
			g := mon.NewRNG(run.Seed, "persist-minredef-"+proto, round)
			f := filepath.Join(dir, fmt.Sprintf("minredef-%s-%d.json", proto, round))
			bc := buildCacheMax(g, proto, g.Range(3, 10), snap, 6)
			if err := bc.api.dump(f); err != nil {
				continue
			}
			api2 := newCacheAPI(proto, f)
			var changes []string
			keys2 := append([]pkey{}, bc.keys...)
			// which keys change, and how; in a third of the rounds exactly one key changes in exactly one way
			nchg := 1
			if round%3 != 0 {
				nchg = g.Range(1, len(keys2))
			}
			for c := 0; c < nchg; c++ {
				ki := g.Intn(len(keys2))
				t := *keys2[ki].Tpl
				t.Scope = append([]wire.Field{}, t.Scope...)
				t.Fields = append([]wire.Field{}, t.Fields...)
				all := t.All()
				fi := g.Intn(len(all))
				pick := func(i int) *wire.Field {
					if i < len(t.Scope) {
						return &t.Scope[i]
					}
					return &t.Fields[i-len(t.Scope)]
				}
				how := ""
				switch v := (round + c) % 6; {
				case v == 0 && proto == "ipfix":
					fl := pick(fi)
					if fl.PEN == 0 {
						fl.PEN = 29305
					} else {
						fl.PEN = 0
					}
					fl.Type = "?"
					how = fmt.Sprintf("enterprise number of field %d → %d", fi, fl.PEN)
				case v == 1:
					fl := pick(fi)
					fl.ID = fl.ID ^ 1
					if fl.ID == 0 {
						fl.ID = 2
					}
					fl.Type = "?"
					how = fmt.Sprintf("element id of field %d → %d", fi, fl.ID)
				case v == 2:
					fl := pick(fi)
					if fl.Len != 65535 && fl.Len > 1 {
						fl.Len--
						how = fmt.Sprintf("length of field %d → %d", fi, fl.Len)
					}
				case v == 3 && len(t.Fields) >= 2:
					t.Fields[0], t.Fields[1] = t.Fields[1], t.Fields[0]
					how = "first two fields swapped"
				case v == 4 && t.Options && len(t.Fields) >= 2:
					t.Scope = append(t.Scope, t.Fields[0])
					t.Fields = t.Fields[1:]
					how = "first option field moved into the scope"
				}
				if how == "" {
					how = "re-announced unchanged"
				}
				kind := wire.SetTemplate
				if t.Options {
					kind = wire.SetOptTemplate
				}
				ts := wire.Set{Kind: kind, Templates: []*wire.Template{&t}}
				if proto == "nf9" {
					ts.Pad = (4 - wire.SetLen(&ts)%4) % 4
				}
				ann, _ := wire.EncodeFlow(proto, []uint32{1, 2, 3, 4}, []wire.Set{ts})
				decodeRecs(api2, keys2[ki].Addr, ann)
				// the data stays the same octets: what they decode to under the definition now in force is the reference
				keys2[ki] = pkey{keys2[ki].Addr, &t, ann, keys2[ki].Data}
				changes = append(changes, fmt.Sprintf("(%x, %d): %s", keys2[ki].Addr, t.ID, how))
			}
			before := map[int]string{}
			for i, k := range keys2 {
				r, et, _ := decodeRecs(api2, k.Addr, k.Data)
				before[i] = fmt.Sprint(r) + "|" + normUnknown(et)
			}
			if err := api2.dump(f); err != nil {
				run.Violation("persist:dump-error", "Dump in the second life failed: "+err.Error(), persistCase{Proto: proto, Kind: "minimal-redefinition", Seed: run.Seed})
				continue
			}
			api3 := newCacheAPI(proto, f)
			run.Eval(1)
			n++
			run.Distinct(fmt.Sprintf("minredef|%s|%d", proto, round))
			for i, k := range keys2 {
				r, et, pn := decodeRecs(api3, k.Addr, k.Data)
				if now := fmt.Sprint(r) + "|" + normUnknown(et); pn != "" || now != before[i] {
					content, _ := os.ReadFile(f)
					pc := persistCase{Proto: proto, Kind: "minimal-redefinition", Detail: strings.Join(changes, "; "), Judge: true, Seed: run.Seed}
					if len(content) < 20000 {
						pc.File = mon.Hex(content)
					}
					run.Violation("persist:round-trip:after-minimal-redefinition", fmt.Sprintf("life 2 loaded the saved cache, re-announced [%s] and saved; after loading again, data of exporter %x template %d decodes to %s %s - at the end of life 2 it decoded to %s", strings.Join(changes, "; "), k.Addr, k.Tpl.ID, clip(now, 300), pn, clip(before[i], 300)), pc)
					break
				}
			}
			os.Remove(f)
		}
	}
	run.Add("three_life_histories_with_minimal_redefinitions", n)
}

// normUnknown keeps of a decoder error only whether it is an unknown-template / unknown-element / zero-length report.
func normUnknown(et string) string {
	switch {
	case et == "":
		return ""
	case strings.Contains(et, "unknown"):
		return "unknown"
	case strings.Contains(et, "not exist"):
		return "element-missing"
	}
	return "error"
}

// largeFiles: a collector that serves thousands of exporters saves a cache file of many megabytes. Caches
// are grown until their file passes 9 and 18 MiB (thorough: 36 and 72 as well - just above the round
// numbers a size limit would be set to), saved, loaded, and a sample of 300 keys must decode as before.
func largeFiles(run *mon.Run, dir string, snap []wire.Elem) {
	targets := []int{9 << 20, 18 << 20}
	if run.Thorough() {
		targets = append(targets, 36<<20, 72<<20)
	}
	for pi, proto := range []string{"ipfix", "nf9"} {
		g := mon.NewRNG(run.Seed, "persist-large", pi)
		bc := &builtCache{proto: proto, api: newCacheAPI(proto, "")}
		o := wire.GenOpts{Elems: snap, Varlen: proto == "ipfix", Reduced: true, Options: true, MaxFields: 30, MaxStrLen: 10}
		if proto == "nf9" {
			o.OnlyPEN0, o.Varlen = true, false
		}
		f := filepath.Join(dir, "large-"+proto+".json")
		exp := 0
		for _, target := range targets {
			var size int64
			for size < int64(target) {
				// 2000 more templates: 125 exporters x 16 ids
				for e := 0; e < 125; e++ {
					exp++
					addr := []byte{10, byte(exp >> 16), byte(exp >> 8), byte(exp)}
					for id := 0; id < 16; id++ {
						var t *wire.Template
						for {
							t = wire.GenTemplate(g, uint16(256+id), o)
							if len(t.All()) >= 12 {
								break
							}
						}
						k := wire.SetTemplate
						if t.Options {
							k = wire.SetOptTemplate
						}
						ts := wire.Set{Kind: k, Templates: []*wire.Template{t}}
						if proto == "nf9" {
							ts.Pad = (4 - wire.SetLen(&ts)%4) % 4
						}
						ann, _ := wire.EncodeFlow(proto, []uint32{1, 2, 3, 4}, []wire.Set{ts})
						decodeRecs(bc.api, addr, ann)
						if id == 0 && e%4 == 0 { // keep a sample of keys with data
							ds := wire.GenDataSet(g, t, 1, o, 0)
							ds.Pad = 0
							if proto == "nf9" && wire.SetLen(&ds)%4 != 0 {
								continue
							}
							dat, _ := wire.EncodeFlow(proto, []uint32{5, 6, 7, 8}, []wire.Set{ds})
							bc.keys = append(bc.keys, pkey{addr, t, ann, dat})
						}
					}
				}
				if err := bc.api.dump(f); err != nil {
					run.Violation("persist:dump-error", "Dump of a large cache failed: "+err.Error(), persistCase{Proto: proto, Kind: "large-file", Seed: run.Seed})
					return
				}
				fi, _ := os.Stat(f)
				size = fi.Size()
			}
			run.Eval(1)
			run.Distinct(fmt.Sprintf("large-file|%s|%dMiB", proto, target>>20))
			run.Add("large_cache_files_round_tripped", 1)
			api := newCacheAPI(proto, f)
			step := len(bc.keys)/300 + 1
			for i := 0; i < len(bc.keys); i += step {
				k := bc.keys[i]
				b1, _, _ := decodeRecs(bc.api, k.Addr, k.Data)
				b2, et, pn := decodeRecs(api, k.Addr, k.Data)
				if pn != "" || fmt.Sprint(b1) != fmt.Sprint(b2) || len(b1) == 0 {
					run.Violation("persist:round-trip:large-file", fmt.Sprintf("a cache of %d exporters x 16 templates was saved (%d octets) and loaded: data of exporter %x template %d decodes to %v (%s %s), before saving to %v", exp, size, k.Addr, k.Tpl.ID, clip(fmt.Sprint(b2), 200), et, pn, clip(fmt.Sprint(b1), 200)),
						persistCase{Proto: proto, Kind: "large-file", Detail: fmt.Sprintf("file of %d octets (not stored: regenerate from seed)", size), Seed: run.Seed, NTpl: exp * 16})
					os.Remove(f)
					return
				}
			}
		}
		os.Remove(f)
	}
}
