// readercheck decides C19: the byte reader against a shadow model (buffer, position), checked
// after every operation, over a depth-bounded complete enumeration of operation sequences and a
// seeded random family of long sequences on large buffers.
package main

import (
	"encoding/binary"
	"encoding/json"
	"fmt"
	"net"
	"sync/atomic"

	"github.com/EdgeCast/vflow/ipfix"
	netflow5 "github.com/EdgeCast/vflow/netflow/v5"
	netflow9 "github.com/EdgeCast/vflow/netflow/v9"
	"github.com/EdgeCast/vflow/reader"

	"verif/harness/mon"
)

// op codes
const (
	opU8 = iota
	opU16
	opU32
	opU64
	opPeekU16
	opRead
	opPeek
)

var opNames = []string{"Uint8", "Uint16", "Uint32", "Uint64", "PeekUint16", "Read", "Peek"}

type op struct {
	Code int `json:"op"`
	N    int `json:"n"` // Read/Peek only
}

func (o op) String() string {
	if o.Code >= opRead {
		return fmt.Sprintf("%s(%d)", opNames[o.Code], o.N)
	}
	return opNames[o.Code]
}

type rcase struct {
	BufLen int  `json:"buf_len"`
	Slack  int  `json:"slack"` // octets of backing array beyond the buffer (canary 0xEE)
	Fill   int  `json:"fill"`  // 0: b[i]=i*37+11 ; otherwise seed for random fill
	Ops    []op `json:"ops"`
	// replay: run the three decoders (argument AfterDecoders-1) on the goroutine before the reader is made
	AfterDecoders int `json:"after_decoders,omitempty"`
}

func makeBuf(c rcase) []byte {
	back := make([]byte, c.BufLen+c.Slack)
	if c.Fill == 0 {
		for i := 0; i < c.BufLen; i++ {
			back[i] = byte(i*37 + 11)
		}
	} else {
		copy(back, mon.NewRNG(int64(c.Fill), "fill", 0).Bytes(c.BufLen))
	}
	for i := c.BufLen; i < len(back); i++ {
		back[i] = 0xEE
	}
	return back[:c.BufLen]
}

// step applies one operation to the real reader and the shadow position; returns a description of
// the disagreement or "".
func step(r *reader.Reader, buf []byte, pos *int, o op, spurious *int64) (msg string) {
	defer func() {
		if p := recover(); p != nil {
			msg = fmt.Sprintf("panic in %s at pos %d of %d: %v", o, *pos, len(buf), p)
		}
	}()
	rem := len(buf) - *pos
	len0, cnt0 := r.Len(), r.ReadCount()
	var (
		n      int
		peek   bool
		err    error
		gotInt uint64
		gotB   []byte
		isInt  bool
	)
	switch o.Code {
	case opU8:
		n, isInt = 1, true
		var v uint8
		v, err = r.Uint8()
		gotInt = uint64(v)
	case opU16:
		n, isInt = 2, true
		var v uint16
		v, err = r.Uint16()
		gotInt = uint64(v)
	case opU32:
		n, isInt = 4, true
		var v uint32
		v, err = r.Uint32()
		gotInt = uint64(v)
	case opU64:
		n, isInt = 8, true
		gotInt, err = r.Uint64()
	case opPeekU16:
		n, isInt, peek = 2, true, true
		var v uint16
		v, err = r.PeekUint16()
		gotInt = uint64(v)
	case opRead:
		n = o.N
		gotB, err = r.Read(n)
	case opPeek:
		n, peek = o.N, true
		gotB, err = r.Peek(n)
	}
	len1, cnt1 := r.Len(), r.ReadCount()
	if cnt1+len1 != len(buf) {
		return fmt.Sprintf("after %s: ReadCount()+Len() = %d+%d != buffer length %d", o, cnt1, len1, len(buf))
	}
	if err != nil {
		if len1 != len0 || cnt1 != cnt0 {
			return fmt.Sprintf("%s failed but moved: Len %d->%d ReadCount %d->%d", o, len0, len1, cnt0, cnt1)
		}
		if n <= rem {
			atomic.AddInt64(spurious, 1)
		}
		return ""
	}
	// success
	if n > rem {
		return fmt.Sprintf("%s succeeded with only %d octets remaining (read outside the buffer)", o, rem)
	}
	want := buf[*pos : *pos+n]
	if isInt {
		var w uint64
		for _, b := range want {
			w = w<<8 | uint64(b)
		}
		if w != gotInt {
			return fmt.Sprintf("%s at pos %d returned %#x, wire big-endian value is %#x", o, *pos, gotInt, w)
		}
	} else {
		if len(gotB) != n {
			return fmt.Sprintf("%s returned %d octets", o, len(gotB))
		}
		for i := range want {
			if want[i] != gotB[i] {
				return fmt.Sprintf("%s at pos %d returned %x, next octets are %x", o, *pos, gotB, want)
			}
		}
		if n > 0 && &gotB[0] != &buf[*pos] {
			// the returned slice must be the octets at [pos,pos+n) themselves or a copy of them; both are
			// fine for the property, only the content matters. Nothing to check.
			_ = gotB
		}
	}
	if peek {
		if len1 != len0 || cnt1 != cnt0 {
			return fmt.Sprintf("%s advanced: Len %d->%d ReadCount %d->%d", o, len0, len1, cnt0, cnt1)
		}
		return ""
	}
	if len1 != len0-n || cnt1 != cnt0+n {
		return fmt.Sprintf("%s of %d octets moved Len %d->%d ReadCount %d->%d", o, n, len0, len1, cnt0, cnt1)
	}
	*pos += n
	if len1 != len(buf)-*pos {
		return fmt.Sprintf("after %s: Len() = %d, shadow says %d remain", o, len1, len(buf)-*pos)
	}
	return ""
}

// decodersRun lets the collector's three reader-based decoders work through complete datagrams on the calling
// goroutine: a reader handed out afterwards is what a collector process really gets - one that exists in a
// process where readers have been created, used up and dropped before.
var (
	ipfixCache = ipfix.GetCache("")
	nf9Cache   = netflow9.GetCache("")
)

func decodersRun(k int) {
	defer func() { recover() }()
	ip := net.IPv4(127, 0, 0, byte(k))
	// IPFIX: header, template 256 {octetDeltaCount/4, protocolIdentifier/1}, data set of k%7+1 records
	nrec := k%7 + 1
	m := []byte{0, 10, 0, 0, 0, 0, 0, 1, 0, 0, 0, 2, 0, 0, 0, 3}
	m = append(m, 0, 2, 0, 16, 1, 0, 0, 2, 0, 1, 0, 4, 0, 4, 0, 1)
	m = append(m, 1, 0, 0, byte(4+5*nrec))
	for i := 0; i < nrec; i++ {
		m = append(m, 0, 0, 1, byte(i), 6)
	}
	binary.BigEndian.PutUint16(m[2:], uint16(len(m)))
	ipfix.NewDecoder(ip, m).Decode(ipfixCache)
	// NetFlow v9: header, template flowset, data flowset
	n := []byte{0, 9, 0, 2, 0, 0, 0, 1, 0, 0, 0, 2, 0, 0, 0, 3, 0, 0, 0, 4}
	n = append(n, 0, 0, 0, 16, 1, 0, 0, 2, 0, 1, 0, 4, 0, 4, 0, 1)
	n = append(n, 1, 0, 0, 12, 0, 0, 1, 1, 6, 0, 0, 0)
	netflow9.NewDecoder(ip, n).Decode(nf9Cache)
	// NetFlow v5: header with count = k%3+1 and that many 48-octet flows
	cnt := k%3 + 1
	f := make([]byte, 24+48*cnt)
	f[1], f[3] = 5, byte(cnt)
	netflow5.NewDecoder(ip, f).Decode()
}

func runCase(c rcase, spurious *int64) (string, int) {
	buf := makeBuf(c)
	r := reader.NewReader(buf)
	pos := 0
	if r.Len() != len(buf) || r.ReadCount() != 0 {
		return fmt.Sprintf("fresh reader: Len %d ReadCount %d for a %d-octet buffer", r.Len(), r.ReadCount(), len(buf)), 0
	}
	for i, o := range c.Ops {
		if m := step(r, buf, &pos, o, spurious); m != "" {
			return m, i
		}
	}
	return "", len(c.Ops)
}

func variants(bufLen int) []op {
	v := []op{{opU8, 0}, {opU16, 0}, {opU32, 0}, {opU64, 0}, {opPeekU16, 0}}
	seen := map[int]bool{}
	// lengths near the top of the integer range: position + length must not be computed in a way that wraps
	const maxInt = int(^uint(0) >> 1)
	for _, n := range []int{0, 1, 2, 3, 4, 5, 8, 9, bufLen, bufLen + 1, maxInt, maxInt - 1, maxInt - bufLen, 1 << 62, 1<<31 - 1, 1 << 32} {
		if seen[n] {
			continue
		}
		seen[n] = true
		v = append(v, op{opRead, n}, op{opPeek, n})
	}
	return v
}

func main() {
	args := mon.ParseArgs()
	run := mon.NewRun("C19", "readercheck", "exploration")
	var spurious int64
	if args.Replay != "" {
		d, err := mon.LoadReplay(args.Replay)
		if err != nil {
			run.HarnessError(err.Error())
			run.Finish()
		}
		var c rcase
		json.Unmarshal(d.Case, &c)
		if c.AfterDecoders > 0 {
			decodersRun(c.AfterDecoders - 1)
		}
		m, at := runCase(c, &spurious)
		run.Eval(1)
		run.DistinctBulk(2)
		if m != "" {
			run.Violation(d.Signature, fmt.Sprintf("op #%d: %s", at, m), c)
		} else {
			fmt.Println("replay: the case no longer violates")
		}
		run.Finish()
	}
	depth := run.Pick(4, 5)
	maxLen := 12
	// canary: a deliberately wrong shadow must be noticed (monitor self-test)
	{
		buf := makeBuf(rcase{BufLen: 4, Slack: 4})
		r := reader.NewReader(buf)
		pos := 1 // wrong on purpose
		if m := step(r, buf, &pos, op{opU16, 0}, &spurious); m == "" {
			run.HarnessError("canary: comparator accepted a wrong expectation")
		}
	}
	var seqs, nontriv, opsRun int64
	type job struct {
		l     int
		first op
	}
	var jobs []job
	for l := 0; l <= maxLen; l++ {
		for _, o := range variants(l) {
			jobs = append(jobs, job{l, o})
		}
	}
	mon.ParallelFor(len(jobs), func(ji int) {
		j := jobs[ji]
		vs := variants(j.l)
		back := makeBuf(rcase{BufLen: j.l, Slack: 16})
		var lseq, lnon, lops int64
		stack := make([]op, 0, depth)
		var dfs func(r reader.Reader, pos int, d int, sawOK, sawFail bool)
		dfs = func(r reader.Reader, pos int, d int, sawOK, sawFail bool) {
			// every prefix is itself a sequence
			lseq++
			if sawOK && sawFail {
				lnon++
			}
			if d == depth {
				return
			}
			for _, o := range vs {
				if d == 0 && o != j.first {
					continue
				}
				rc := r // the reader is a value (slice header + count): copying it forks the state
				p := pos
				lops++
				stack = append(stack[:d], o)
				if m := step(&rc, back, &p, o, &spurious); m != "" {
					c := rcase{BufLen: j.l, Slack: 16, Ops: append([]op{}, stack[:d+1]...)}
					run.Violation("reader:"+sigOf(m, o), m, c)
					continue
				}
				ok := succeeded(o, len(back)-pos)
				fail := !ok
				dfs(rc, p, d+1, sawOK || ok, sawFail || fail)
			}
		}
		dfs(*reader.NewReader(back), 0, 0, false, false)
		atomic.AddInt64(&seqs, lseq)
		atomic.AddInt64(&nontriv, lnon)
		atomic.AddInt64(&opsRun, lops)
	})
	run.Eval(int(seqs))
	run.DistinctBulk(nontriv)
	run.Add("exhaustive_sequences", seqs)
	run.Add("exhaustive_operations_executed", opsRun)

	// random long sequences on large buffers (sub-slices of a larger backing array, so that a read
	// past the end would succeed silently instead of panicking and has to be caught by the oracle)
	nRand := run.Pick(100000, 5000000)
	var rops, afterDec int64
	mon.ParallelFor(nRand/1000, func(bi int) {
		for k := 0; k < 1000; k++ {
			idx := bi*1000 + k
			g := mon.NewRNG(run.Seed, "reader", idx)
			c := rcase{Slack: g.Intn(64), Fill: idx + 1}
			switch g.Intn(4) {
			case 0:
				c.BufLen = g.Intn(20)
			case 1:
				c.BufLen = g.Intn(2000)
			default:
				c.BufLen = g.Intn(70000)
			}
			nops := g.Range(1, 200)
			rem := c.BufLen
			for i := 0; i < nops; i++ {
				o := op{Code: g.Intn(7)}
				if o.Code >= opRead {
					switch g.Intn(7) {
					case 6:
						o.N = []int{int(^uint(0) >> 1), int(^uint(0)>>1) - g.Intn(70000), 1 << 62, 1<<63 - 1 - (c.BufLen - rem), 1 << 32, 1<<31 - 1}[g.Intn(6)]
					case 0:
						o.N = rem
					case 1:
						o.N = rem + 1 + g.Intn(3)
					case 2:
						o.N = g.Intn(10)
					case 3:
						o.N = g.Intn(70000)
					default:
						o.N = g.Intn(rem/4 + 2)
					}
				}
				c.Ops = append(c.Ops, o)
				if o.Code == opRead && o.N <= rem {
					rem -= o.N
				} else if o.Code < opPeekU16 {
					w := []int{1, 2, 4, 8}[o.Code]
					if w <= rem {
						rem -= w
					}
				}
			}
			if idx%4 == 0 {
				// a quarter of the sequences run on a reader obtained right after real decoders have finished
				decodersRun(idx / 4)
				atomic.AddInt64(&afterDec, 1)
			}
			m, at := runCase(c, &spurious)
			atomic.AddInt64(&rops, int64(at))
			if m != "" {
				c.Ops = c.Ops[:at+1]
				if idx%4 == 0 {
					c.AfterDecoders = idx/4 + 1
					m += " (the reader was obtained after the ipfix, netflow v9 and netflow v5 decoders had each decoded a datagram in this process)"
				}
				run.Violation("reader:"+sigOf(m, c.Ops[at]), m, c)
			}
			if idx < 3 {
				run.Sample(map[string]interface{}{"buf_len": c.BufLen, "slack": c.Slack, "ops": fmt.Sprint(c.Ops[:min(len(c.Ops), 12)])})
			}
		}
	})
	run.Eval(nRand)
	run.DistinctBulk(int64(nRand))
	run.Add("random_sequences", int64(nRand))
	run.Add("random_operations_executed", rops)
	run.Add("sequences_on_a_reader_obtained_after_real_decoders_had_run", afterDec)
	run.Add("failures_with_enough_octets_left(not_judged)", spurious)
	run.Set("enumeration", map[string]interface{}{"depth": depth, "buffer_lengths": "0..12", "operation_variants_per_length": len(variants(12)),
		"complete": true})
	run.SetRule("complete enumeration of all operation sequences of depth ≤ d over {Uint8,Uint16,Uint32,Uint64,PeekUint16,Read(n),Peek(n)} with n ∈ {0,1,2,3,4,5,8,9,len,len+1, MaxInt, MaxInt-1, MaxInt-len, 2^62, 2^31-1, 2^32} on buffers of 0..12 octets (every prefix counted as a sequence; non-trivial = contains at least one successful and one failing operation), plus seeded random sequences of ≤200 operations on buffers ≤70000 octets that are sub-slices of a larger canary-filled array; after EVERY operation the result, Len() and ReadCount() are compared with the shadow (buffer, position)")
	run.Sample(map[string]interface{}{"buf_len": 3, "ops": "Uint16, Peek(2)→fail, Read(1), Uint8→fail", "kind": "one enumerated sequence"})
	run.Assume("n ≥ 0 (a negative length is not 'a read of n octets')")
	run.Assume("a failure although enough octets remain is not judged by this property (counted in counters)")
	run.Finish()
}

func succeeded(o op, rem int) bool {
	switch o.Code {
	case opU8:
		return rem >= 1
	case opU16, opPeekU16:
		return rem >= 2
	case opU32:
		return rem >= 4
	case opU64:
		return rem >= 8
	}
	return o.N <= rem
}

func sigOf(m string, o op) string {
	kind := "mismatch"
	switch {
	case len(m) > 5 && m[:5] == "panic":
		kind = "panic"
	case contains(m, "outside the buffer"):
		kind = "overread"
	case contains(m, "failed but moved"):
		kind = "failed-but-moved"
	case contains(m, "advanced"):
		kind = "peek-advanced"
	case contains(m, "ReadCount()+Len()"):
		kind = "conservation"
	case contains(m, "moved Len"):
		kind = "wrong-advance"
	case contains(m, "returned"):
		kind = "wrong-value"
	}
	return opNames[o.Code] + ":" + kind
}

func contains(s, sub string) bool {
	for i := 0; i+len(sub) <= len(s); i++ {
		if s[i:i+len(sub)] == sub {
			return true
		}
	}
	return false
}
