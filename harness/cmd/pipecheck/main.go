// pipecheck decides the pipeline properties with the in-repo scenario driver (build tag verif):
// C12 (a published message depends only on its own datagram), C13 (accounting, at most once,
// exactly once when records exist), C16 (mirroring). It generates scenarios, runs the driver test
// binary (plain and race builds) as child processes, and is the offline checker over their event
// logs, strace captures and UDP listener.
package main

import (
	"bufio"
	"bytes"
	"encoding/json"
	"fmt"
	"os"
	"os/exec"
	"path/filepath"
	"sort"
	"strings"
	"sync"
	"syscall"
	"time"

	"verif/harness/mon"
	"verif/harness/pipe"
	"verif/harness/wire"
)

type event struct {
	Ev      string          `json:"ev"`
	ID      int             `json:"id"`
	Phase   int             `json:"phase"`
	B       string          `json:"b"`
	Stats   json.RawMessage `json:"stats"`
	Reused  int             `json:"reused"`
	Fresh   int             `json:"fresh"`
	Workers int             `json:"workers"`
	Note    string          `json:"note"`
}

type scenCase struct {
	Sc         scenario
	Fed        []pipe.FedInfo
	Desc       string
	Race       bool
	Mirror     bool
	DeadMirror bool // mirroring towards a target every send to which fails
}

type witness struct {
	Desc     string   `json:"scenario"`
	Scenario string   `json:"scenario_file,omitempty"`
	Seed     int64    `json:"seed"`
	Index    int      `json:"index"`
	Mode     string   `json:"mode"`
	Race     bool     `json:"race_build"`
	Detail   string   `json:"detail"`
	Got      string   `json:"published_payload,omitempty"`
	Want     string   `json:"standalone_payload,omitempty"`
	Dgram    string   `json:"datagram,omitempty"`
	Exporter string   `json:"exporter,omitempty"`
	Log      []string `json:"child_output_head,omitempty"`
}

var snap []wire.Elem

// protoOnly restricts the scenarios to the listed protocols (pipeline tiers of C03/C06/C07/C08/C09).
var protoOnly string

// tailCutPercent: share of the data datagrams that lose 1-160 octets at the tail.
var tailCutPercent = 20

// buildScenario makes scenario number idx for the mode ("alias" C12, "account" C13, "mirror" C16).
func buildScenario(seed int64, mode string, idx int, thorough bool) *scenCase {
	g := mon.NewRNG(seed, "pipe-"+mode, idx)
	protos := []string{"ipfix", "nf9", "nf5", "sflow"}
	if mode == "mirror" {
		protos = []string{"ipfix", "sflow"}
	}
	if protoOnly != "" {
		protos = strings.Split(protoOnly, ",")
	}
	proto := protos[idx%len(protos)]
	variant := idx / len(protos)
	workers := []int{1, 2, 3, 8, 64, 200}[variant%6]
	procs := []int{1, 2, 16}[(variant/2)%3]
	size := []int{1500, 512, 9000}[(variant/3)%3]
	if proto == "nf5" && size < 1500 {
		size = 1500
	}
	nexp := g.Range(1, 12)
	if g.Chance(1, 5) {
		nexp = g.Range(20, 50)
	}
	sc := &scenCase{Sc: scenario{Proto: proto, UDPSize: size, Workers: workers, GoMaxProcs: procs, Verbose: variant%4 == 2}}
	tr := pipe.NewTraffic(g, proto, nexp, size, snap, mode == "mirror", mode == "json")
	lib := pipe.NewLibCache()
	id := 0
	feed := func(e, d []byte, kind string, phase int) {
		id++
		if len(d) > size {
			d = d[:size] // what the receive buffer would hold
		}
		sc.Sc.Steps = append(sc.Sc.Steps, step{Op: "feed", Addr: mon.Hex(e), Port: 1000 + id%5000, Dgram: mon.Hex(d), ID: id})
		sc.Fed = append(sc.Fed, pipe.FedInfo{ID: id, Addr: e, Dgram: d, Kind: kind, Phase: phase})
	}
	phase := 0
	if proto == "ipfix" || proto == "nf9" {
		for _, e := range tr.Exporters {
			feed(e, tr.TplDgrams[mon.Hex(e)], "templates", 0)
		}
		sc.Sc.Steps = append(sc.Sc.Steps, step{Op: "barrier"})
		phase = 1
	}
	n := g.Range(100, 900)
	if mode == "mirror" {
		n = g.Range(100, 300)
	}
	// a mirror target nothing can be sent to (limited broadcast without SO_BROADCAST: every send fails, the mirror
	// workers give up, the mirror queues - up to 3 x 1000 slots - fill, and from then on every copy is refused): the
	// workers' "queue full" path runs, with alternating datagram sizes behind it
	if (mode == "alias" || mode == "account") && (proto == "ipfix" || proto == "sflow") && variant%3 == 1 {
		sc.Sc.MirrorAddr, sc.Sc.MirrorPort = "255.255.255.255", 9
		n = g.Range(3300, 3700)
		sc.DeadMirror = true
	}
	churnAt := map[int]bool{}
	if mode == "account" && workers >= 2 && g.Chance(1, 2) {
		for k := g.Range(1, 4); k > 0; k-- {
			churnAt[g.Intn(n)] = true
		}
	}
	for k := 0; k < n; k++ {
		e := tr.Exporters[g.Intn(len(tr.Exporters))]
		r := g.Intn(100)
		switch {
		case mode == "account" && r < 8 && (proto == "ipfix" || proto == "nf9"):
			feed(e, tr.TplDgrams[mon.Hex(e)], "template-only (same definitions again)", phase)
		case mode == "account" && r < 16 && (proto == "ipfix" || proto == "nf9"):
			b, _ := wire.EncodeFlow(proto, []uint32{1, uint32(id + 1), uint32(id + 1), 4}, []wire.Set{{Kind: wire.SetRaw, SetID: uint16(5000 + g.Intn(100)), RawBody: g.Bytes(4 * g.Range(1, 8))}})
			feed(e, b, "unknown template", phase)
		case mode == "account" && r < 24:
			d := tr.Data(e, id+1, false)
			switch g.Intn(4) {
			case 0:
				d = d[:g.Intn(len(d))]
			case 1:
				d = g.Bytes(g.Range(1, 60))
			case 2:
				d = []byte{}
			default:
				d = append([]byte{}, d...)
				d[1] ^= 0x40 // wrong version
			}
			feed(e, d, "malformed", phase)
		default:
			// alternate sizes: a maximum-size datagram followed by a tiny one, so that stale octets
			// of a recycled buffer would survive into the next decode
			switch {
			case r >= 90 && (proto == "ipfix" || proto == "nf9"):
				feed(e, tr.DataMixed(e, id+1, k%2 == 0), "data mixed with a set of an unknown template", phase)
			case r >= 76 && r < 80 && proto == "ipfix":
				// nothing but a message header, whose Length field announces up to a full buffer of sets that never came
				h := make([]byte, 16)
				h[1] = 10
				l := 16 + 4*g.Range(10, (size-16)/4)
				h[2], h[3] = byte(l>>8), byte(l)
				h[8], h[9], h[10], h[11] = byte((id+1)>>24), byte((id+1)>>16), byte((id+1)>>8), byte(id+1)
				feed(e, h, "a bare message header announcing more octets than were received", phase)
			case r >= 100-tailCutPercent:
				// the tail is missing: whatever the decoder makes of the rest (records, a partial sFlow sample with a
				// short sampled header) must still depend on this datagram alone
				d := tr.Data(e, id+1, k%2 == 0)
				if cut := 1 + g.Intn(160); cut < len(d) {
					d = d[:len(d)-cut]
				}
				feed(e, d, "data cut short at the tail", phase)
			default:
				feed(e, tr.Data(e, id+1, k%2 == 0), "data", phase)
			}
		}
		if n > 900 && k%800 == 799 {
			// long scenarios: join the workers and drain the outgoing queue (1000 slots) before it can fill
			sc.Sc.Steps = append(sc.Sc.Steps, step{Op: "barrier"})
			phase++
		}
		if churnAt[k] {
			if g.Bool() {
				sc.Sc.Steps = append(sc.Sc.Steps, step{Op: "quit_worker", N: g.Range(1, 3)})
			} else {
				sc.Sc.Steps = append(sc.Sc.Steps, step{Op: "add_worker", N: g.Range(1, 5)})
			}
		}
		if mode == "account" && k == n/2 {
			sc.Sc.Steps = append(sc.Sc.Steps, step{Op: "stats"})
		}
	}
	// expectations: templates first (phase 0 order), then every datagram on the frozen cache
	for i := range sc.Fed {
		f := &sc.Fed[i]
		f.Expect, f.Class, _ = pipe.Standalone(proto, f.Addr, f.Dgram, lib, nil)
		f.Key = tr.Key(f.Addr, f.ID, f.Dgram)
	}
	sc.Desc = fmt.Sprintf("%s #%d %s workers=%d gomaxprocs=%d udp-size=%d exporters=%d datagrams=%d", mode, idx, proto, workers, procs, size, nexp, len(sc.Fed))
	if sc.DeadMirror {
		sc.Desc += " mirror-target-unreachable"
	}
	return sc
}

type runOut struct {
	Events   []event
	Output   string
	Err      error
	Races    []string
	TimedOut bool
}

// runDriver executes the driver test binary on one scenario.
func runDriver(sc *scenario, dir string, race bool, strace string) runOut {
	os.MkdirAll(dir, 0o755)
	scf := filepath.Join(dir, "scenario.json")
	evf := filepath.Join(dir, "events.jsonl")
	b, _ := json.Marshal(sc)
	os.WriteFile(scf, b, 0o644)
	bin := filepath.Join(os.Getenv("VERIF_BUILD"), "driver.test")
	if race {
		bin = filepath.Join(os.Getenv("VERIF_BUILD"), "driver.race.test")
	}
	argv := []string{bin, "-test.run", "^TestVerifDriver$", "-test.count", "1", "-test.timeout", "10m"}
	if strace != "" {
		argv = append([]string{"strace", "-f", "-e", "trace=sendto", "-xx", "-s", "70000", "-o", strace}, argv...)
	}
	cmd := exec.Command(argv[0], argv[1:]...)
	cmd.Env = append(os.Environ(), "VERIF_SCENARIO="+scf, "VERIF_EVENTS="+evf, "VERIF_LOG="+filepath.Join(dir, "vflow.log"),
		"GORACE=halt_on_error=0 exitcode=0 log_path="+filepath.Join(dir, "race"))
	var out bytes.Buffer
	cmd.Stdout, cmd.Stderr = &out, &out
	cmd.SysProcAttr = &syscall.SysProcAttr{Pdeathsig: syscall.SIGKILL, Setpgid: true}
	var ro runOut
	if err := cmd.Start(); err != nil {
		ro.Err = err
		return ro
	}
	done := make(chan error, 1)
	go func() { done <- cmd.Wait() }()
	select {
	case ro.Err = <-done:
	case <-time.After(5 * time.Minute):
		syscall.Kill(-cmd.Process.Pid, syscall.SIGQUIT)
		time.Sleep(time.Second)
		syscall.Kill(-cmd.Process.Pid, syscall.SIGKILL)
		<-done
		ro.TimedOut = true
	}
	ro.Output = out.String()
	if f, err := os.Open(evf); err == nil {
		s := bufio.NewScanner(f)
		s.Buffer(make([]byte, 1<<20), 1<<26)
		for s.Scan() {
			var e event
			if json.Unmarshal(s.Bytes(), &e) == nil {
				ro.Events = append(ro.Events, e)
			}
		}
		f.Close()
	}
	files, _ := filepath.Glob(filepath.Join(dir, "race.*"))
	for _, rf := range files {
		rb, _ := os.ReadFile(rf)
		for _, blk := range strings.Split(string(rb), "==================\n") {
			if strings.Contains(blk, "WARNING: DATA RACE") {
				ro.Races = append(ro.Races, blk)
			}
		}
	}
	return ro
}

// attributeRace classifies a race report by its frames (DESIGN.md §2.2).
func attributeRace(blk string) (attr, entry string) {
	var fr []string
	for _, l := range strings.Split(blk, "\n") {
		l = strings.TrimSpace(l)
		if strings.HasPrefix(l, "github.com/EdgeCast/vflow/") {
			fn := strings.TrimPrefix(l, "github.com/EdgeCast/vflow/")
			if i := strings.LastIndex(fn, "("); i > 0 {
				fn = fn[:i]
			}
			fr = append(fr, fn)
		}
	}
	if len(fr) == 0 {
		return "harness", ""
	}
	uniq := map[string]bool{}
	var names []string
	for _, f := range fr {
		if !uniq[f] {
			uniq[f] = true
			names = append(names, f)
		}
	}
	sort.Strings(names)
	all := strings.Join(names, " | ")
	// signature: the innermost vflow frame of each of the two stacks
	var ends []string
	for _, part := range strings.Split(blk, "\n\n") {
		for _, l := range strings.Split(part, "\n") {
			l = strings.TrimSpace(l)
			if strings.HasPrefix(l, "github.com/EdgeCast/vflow/") && !strings.Contains(l, "TestVerifDriver") {
				fn := strings.TrimPrefix(l, "github.com/EdgeCast/vflow/")
				if i := strings.LastIndex(fn, "("); i > 0 {
					fn = fn[:i]
				}
				ends = append(ends, fn)
				break
			}
		}
		if len(ends) == 2 {
			break
		}
	}
	sort.Strings(ends)
	entry = strings.Join(ends, " <-> ")
	isMirrorFlag := strings.Contains(blk, "mirrorIPFIXDispatcher") || strings.Contains(blk, "mirrorSFlowDispatcher")
	onlyDriver := true
	for _, f := range names {
		if !strings.Contains(f, "TestVerifDriver") {
			onlyDriver = false
		}
	}
	switch {
	case onlyDriver:
		return "harness", entry
	case strings.Contains(all, "MemCache") || strings.Contains(all, "GetCache"):
		return "C10", entry
	case isMirrorFlag && !strings.Contains(blk, "/mirror.") && !strings.Contains(all, "vflow.mirrorIPFIX |") && !strings.Contains(all, "vflow.mirrorSFlow |") && !strings.HasSuffix(all, "vflow.mirrorIPFIX") && !strings.HasSuffix(all, "vflow.mirrorSFlow"):
		// the dispatcher flips the *MirrorEnabled flag while workers poll it: no property covers it
		return "unattributed", entry
	case strings.Contains(all, "vflow.mirrorIPFIX") || strings.Contains(all, "vflow.mirrorSFlow") || strings.Contains(all, "mirror."):
		return "C16", entry
	case strings.Contains(all, "Worker"):
		return "C12", entry
	}
	return "unattributed", entry
}

func main() {
	args := mon.ParseArgs()
	var err error
	snap, err = wire.LoadSnapshot(mon.Root())
	if err != nil {
		fmt.Println("HARNESS-ERROR", err)
		os.Exit(mon.ExitHarness)
	}
	switch args.Prop {
	case "C12":
		pipeMain(args, "C12", "alias")
	case "C13":
		pipeMain(args, "C13", "account")
	case "C05":
		pipeMain(args, "C05", "json")
	case "C02":
		// pipeline tier of C02: what the worker does for a datagram is bounded by, and determined by, the octets that
		// were received - not by a length field that announces more (the receive buffers are recycled and still
		// hold older datagrams behind the received octets)
		pipeMain(args, "C02", "alias")
	case "C09":
		// pipeline tier of C09: a datagram that arrives cut short must not be completed from anywhere (the receive
		// buffer still holds older datagrams behind it): half of the data datagrams of these scenarios lose their tail
		protoOnly, tailCutPercent = "ipfix,nf9", 50
		pipeMain(args, "C09", "alias")
	case "C03", "C06", "C07", "C08":
		// pipeline tier of a decoding property: the alias scenarios of its own protocol only
		protoOnly = map[string]string{"C03": "ipfix", "C06": "nf9", "C07": "sflow", "C08": "nf5"}[args.Prop]
		pipeMain(args, args.Prop, "alias")
	case "C16":
		mirrorMain(args)
	default:
		fmt.Println("HARNESS-ERROR pipecheck: unknown property", args.Prop)
		os.Exit(mon.ExitHarness)
	}
}

// checkPublished applies the C12 and C13 oracles to one run. prop selects which verdicts count.
func checkPublished(run *mon.Run, prop string, sc *scenCase, ro runOut, idx int, mode string) (inversions int, published int) {
	wit := func(detail string) witness {
		return witness{Desc: sc.Desc, Seed: run.Seed, Index: idx, Mode: mode, Race: sc.Race, Detail: detail, Log: headLines(ro.Output, 30)}
	}
	proto := sc.Sc.Proto
	if ro.TimedOut {
		run.Inconclusive(sc.Desc + ": driver hit the wall-clock watchdog")
		return
	}
	ended := false
	for _, e := range ro.Events {
		if e.Ev == "end" {
			ended = true
		}
	}
	if crashed(ro, ended) {
		sig := "pipe:" + proto + ":driver-died"
		if strings.Contains(ro.Output, "panic:") {
			sig = "pipe:" + proto + ":panic:" + panicFrame(ro.Output)
		} else if strings.Contains(ro.Output, "fatal error:") {
			sig = "pipe:" + proto + ":fatal"
		}
		// a crash of the pipeline is a violation for every pipeline property
		run.Violation(sig, fmt.Sprintf("%s: the worker pipeline died: %v; %s", sc.Desc, ro.Err, clip(firstPanic(ro.Output), 500)), wit("pipeline crashed"))
		return
	}
	byKey := map[string]*pipe.FedInfo{}
	byID := map[int]*pipe.FedInfo{}
	for i := range sc.Fed {
		f := &sc.Fed[i]
		byID[f.ID] = f
		if f.Expect != nil {
			byKey[f.Key] = f
		}
	}
	seen := map[string]int{}
	lastID := -1
	for _, e := range ro.Events {
		if e.Ev != "published" {
			continue
		}
		published++
		b := mon.UnHex(e.B)
		if proto == "sflow" {
			b = pipe.MaskColTime(b)
		}
		key := pipe.PayloadKey(proto, b)
		f := byKey[key]
		if f == nil {
			// C12: payload of no fed datagram; find the nearest for the report
			w := wit("a published payload carries an identity that no fed datagram with records has")
			w.Got = clip(string(b), 600)
			if aliasLike(prop) {
				run.Violation("pipe:"+proto+":foreign-payload", fmt.Sprintf("%s: published payload with identity %s matches no fed datagram: %s", sc.Desc, key, clip(string(b), 200)), w)
			} else {
				run.Violation("pipe:"+proto+":published-not-received", fmt.Sprintf("%s: a message with identity %s was published although no received datagram yields it", sc.Desc, key), w)
			}
			continue
		}
		seen[key]++
		if f.ID < lastID {
			inversions++
		}
		lastID = f.ID
		if prop == "C05" && !json.Valid(b) {
			w := wit("a payload handed to the message queue is not a valid JSON document")
			w.Got, w.Dgram, w.Exporter = clip(string(b), 1500), mon.Hex(f.Dgram), mon.Hex(f.Addr)
			run.Violation("pipe:"+proto+":invalid-json", fmt.Sprintf("%s: datagram %d: the published payload is not valid JSON: %s", sc.Desc, f.ID, clip(string(b), 200)), w)
		}
		if aliasLike(prop) && !bytes.Equal(b, f.Expect) {
			w := wit("published payload differs from what decoding the datagram alone produces")
			w.Got, w.Want, w.Dgram, w.Exporter = clip(string(b), 1500), clip(string(f.Expect), 1500), mon.Hex(f.Dgram), mon.Hex(f.Addr)
			at := 0
			for at < len(b) && at < len(f.Expect) && b[at] == f.Expect[at] {
				at++
			}
			run.Violation("pipe:"+proto+":payload-differs", fmt.Sprintf("%s: datagram %d (%s): published payload differs from its stand-alone decode at octet %d: …%s… vs …%s…", sc.Desc, f.ID, f.Kind, at, clip(string(b[max(0, at-20):]), 60), clip(string(f.Expect[max(0, at-20):]), 60)), w)
		}
		if prop == "C13" && seen[key] == 2 {
			run.Violation("pipe:"+proto+":published-twice", fmt.Sprintf("%s: datagram %d was published twice", sc.Desc, f.ID), wit("duplicate"))
		}
	}
	if aliasLike(prop) {
		// "byte-for-byte what decoding that datagram on its own would produce": if that is a message, nothing at
		// all is not it (the queue never holds more than 800 messages between two barriers, so it never fills)
		for k, f := range byKey {
			if seen[k] == 0 {
				w := wit("decoding the datagram on its own yields a message; the pipeline published nothing for it")
				w.Dgram, w.Exporter, w.Want = mon.Hex(f.Dgram), mon.Hex(f.Addr), clip(string(f.Expect), 600)
				run.Violation("pipe:"+proto+":nothing-published", fmt.Sprintf("%s: datagram %d (%s, %d octets): decoded on its own it yields a message, in the pipeline nothing was published for it (%d published of %d expected)", sc.Desc, f.ID, f.Kind, len(f.Dgram), published, len(byKey)), w)
				break
			}
		}
	}
	if prop == "C13" {
		for k, f := range byKey {
			if seen[k] == 0 {
				w := wit("a datagram that yields records was not published although the queue never filled")
				w.Dgram, w.Exporter, w.Want = mon.Hex(f.Dgram), mon.Hex(f.Addr), clip(string(f.Expect), 600)
				run.Violation("pipe:"+proto+":not-published", fmt.Sprintf("%s: datagram %d (%s, %d octets) yields records but was never published (%d published of %d expected)", sc.Desc, f.ID, f.Kind, len(f.Dgram), published, len(byKey)), w)
				break
			}
		}
		// counters of the final stats event
		var last json.RawMessage
		for _, e := range ro.Events {
			if e.Ev == "stats" && e.Note == "" {
				last = e.Stats
			}
		}
		var st struct{ UDPCount, DecodedCount uint64 }
		json.Unmarshal(last, &st)
		def, part := 0, 0
		for _, f := range sc.Fed {
			switch f.Class {
			case "definite":
				def++
			case "partial":
				part++
			}
		}
		if int(st.DecodedCount) < def || int(st.DecodedCount) > def+part {
			run.Violation("pipe:"+proto+":decoded-count", fmt.Sprintf("%s: DecodedCount = %d; %d datagrams decode successfully, %d more decode partially (allowed either way), %d fed", sc.Desc, st.DecodedCount, def, part, len(sc.Fed)), wit("DecodedCount out of range"))
		}
	}
	return
}

// crashed tells whether the driver process died. In a race build the testing package fails the test
// when the detector reported anything ("race detected during execution of test"): that exit status
// is not a crash, the reports are judged separately by attribution.
func crashed(ro runOut, ended bool) bool {
	if !ended || strings.Contains(ro.Output, "panic:") || strings.Contains(ro.Output, "fatal error:") {
		return true
	}
	if ro.Err != nil && !strings.Contains(ro.Output, "race detected during execution of test") {
		return true
	}
	return false
}

func headLines(s string, n int) []string {
	l := strings.Split(s, "\n")
	if len(l) > n {
		l = l[:n]
	}
	return l
}

func firstPanic(s string) string {
	for _, k := range []string{"panic:", "fatal error:"} {
		if i := strings.Index(s, k); i >= 0 {
			return s[i:]
		}
	}
	return s
}

func panicFrame(s string) string {
	s = firstPanic(s)
	for _, l := range strings.Split(s, "\n") {
		if strings.HasPrefix(l, "github.com/EdgeCast/vflow/") {
			fn := strings.TrimPrefix(l, "github.com/EdgeCast/vflow/")
			if i := strings.LastIndex(fn, "("); i > 0 {
				fn = fn[:i]
			}
			return fn
		}
	}
	return "unknown"
}

func clip(s string, n int) string {
	if len(s) > n {
		return s[:n] + "…"
	}
	return s
}

func pipeMain(args mon.Args, prop, mode string) {
	run := mon.NewRun(prop, "pipecheck/"+mode, "exploration")
	dir := os.Getenv("VERIF_RUN")
	type job struct {
		idx  int
		race bool
	}
	var jobs []job
	if args.Replay != "" {
		d, err := mon.LoadReplay(args.Replay)
		if err != nil {
			run.HarnessError(err.Error())
			run.Finish()
		}
		var w witness
		json.Unmarshal(d.Case, &w)
		run.Seed = w.Seed
		for k := 0; k < 20; k++ {
			jobs = append(jobs, job{w.Index, w.Race})
		}
		fmt.Printf("replay: schedule-determined witness; re-running scenario %d twenty times\n", w.Index)
	} else {
		nPlain := run.Pick(24, 800)
		nRace := run.Pick(8, 800)
		if mode == "json" {
			nPlain, nRace = run.Pick(12, 200), run.Pick(0, 40)
		}
		if protoOnly != "" {
			nPlain, nRace = run.Pick(9, 120), run.Pick(2, 30)
		}
		if prop == "C02" {
			nPlain, nRace = run.Pick(16, 200), run.Pick(0, 20)
		}
		for i := 0; i < nPlain; i++ {
			jobs = append(jobs, job{i, false})
		}
		for i := 0; i < nRace; i++ {
			jobs = append(jobs, job{i*5 + 1, true}) // a spread of configurations under the race detector
		}
	}
	var mu sync.Mutex
	var fed, pub, inv, reused int64
	configs := map[string]bool{}
	raceAttr := map[string]int{}
	raceEntries := map[string]int{}
	sem := make(chan struct{}, 8)
	var wg sync.WaitGroup
	hits := 0
	for ji, j := range jobs {
		wg.Add(1)
		sem <- struct{}{}
		go func(ji int, j job) {
			defer wg.Done()
			defer func() { <-sem }()
			sc := buildScenario(run.Seed, mode, j.idx, run.Thorough())
			sc.Race = j.race
			ro := runDriver(&sc.Sc, filepath.Join(dir, fmt.Sprintf("job%d", ji)), j.race, "")
			run.Eval(1)
			before := run.Violations()
			i, p := checkPublished(run, prop, sc, ro, j.idx, mode)
			mu.Lock()
			if run.Violations() > before {
				hits++
			}
			fed += int64(len(sc.Fed))
			pub += int64(p)
			inv += int64(i)
			for _, e := range ro.Events {
				if e.Ev == "stats" && e.Note == "" {
					reused += int64(e.Reused)
				}
			}
			configs[fmt.Sprintf("%s/w%d/p%d/s%d/race=%v", sc.Sc.Proto, sc.Sc.Workers, sc.Sc.GoMaxProcs, sc.Sc.UDPSize, j.race)] = true
			for _, r := range ro.Races {
				a, en := attributeRace(r)
				raceAttr[a]++
				raceEntries[a+": "+en]++
				switch {
				case a == "harness":
					run.HarnessError("race report without a vflow frame: " + clip(r, 1200))
				case a == prop || (a == "C12" && prop == "C13"):
					if a == prop {
						run.Violation("pipe:"+sc.Sc.Proto+":data-race:"+en, sc.Desc+": the race detector reported unsynchronised accesses to pipeline buffers: "+clip(r, 1500),
							witness{Desc: sc.Desc, Seed: run.Seed, Index: j.idx, Mode: mode, Race: true, Detail: clip(r, 5000)})
					}
				}
			}
			mu.Unlock()
			if p > 0 {
				run.Distinct(fmt.Sprintf("%s race=%v", sc.Desc, j.race))
			}
			if ji == 0 && len(sc.Fed) > 2 {
				f := sc.Fed[len(sc.Fed)-1]
				run.Sample(map[string]interface{}{"scenario": sc.Desc, "last_fed": map[string]interface{}{"exporter": mon.Hex(f.Addr), "datagram": clip(mon.Hex(f.Dgram), 300), "identity": f.Key, "expected_payload": clip(string(f.Expect), 300)}, "published": p})
			}
		}(ji, j)
	}
	wg.Wait()
	if args.Replay != "" {
		fmt.Printf("replay: %d of %d runs violated\n", hits, len(jobs))
	}
	// canary: a flipped expectation must be noticed by the comparator
	{
		sc := buildScenario(run.Seed, mode, 3, false)
		var evs []event
		for _, f := range sc.Fed {
			if f.Expect != nil {
				b := append([]byte{}, f.Expect...)
				b[len(b)/2] ^= 0x01
				evs = append(evs, event{Ev: "published", B: mon.Hex(b)})
				break
			}
		}
		evs = append(evs, event{Ev: "end"})
		probe := mon.NewRun(prop+"-canary", "canary", "exploration")
		before := probe.Violations()
		old := os.Stdout
		os.Stdout, _ = os.OpenFile(os.DevNull, os.O_WRONLY, 0)
		checkPublished(probe, prop, sc, runOut{Events: evs}, 3, mode)
		os.Stdout = old
		if probe.Violations() == before {
			run.HarnessError("canary: the comparator accepted a corrupted payload / missing messages")
		}
		os.RemoveAll(filepath.Join(mon.Root(), "replays", prop+"-canary"))
	}
	run.Set("datagrams_fed", fed)
	run.Set("messages_published", pub)
	run.Set("inversions_between_fed_and_published_order", inv)
	run.Set("receive_buffers_observed_reused", reused)
	run.Set("distinct_configurations", len(configs))
	run.Set("race_reports_by_attribution", raceAttr)
	run.Set("race_reports_by_frames", raceEntries)
	if mode == "json" {
		run.SetRule("pipeline tier of C05: the C12 scenarios with hostile field contents (strings with quotes/backslashes/control/non-UTF-8 octets, NaN/Inf floats, booleans, MAC addresses forced into every template) through the real worker goroutines; every payload taken from the message-queue channel must be a valid JSON document and byte-identical to the stand-alone library encoding that the first tier validated member by member. distinct = scenario configuration")
	} else if mode == "alias" && prop == "C09" {
		run.SetRule("pipeline tier of C09: IPFIX and NetFlow v9 alias scenarios in which half of the data datagrams arrive cut short by 1-160 octets, through the real workers and their recycled receive buffers: what is published for a cut datagram must be exactly what the received octets decode to on their own - records made of octets that older datagrams left in the buffer would be fabricated ones. distinct = scenario configuration")
	} else if mode == "alias" && prop == "C02" {
		run.SetRule("pipeline tier of C02: the C12 scenarios (alternating maximum-size and tiny datagrams through recycled receive buffers; a tenth of the datagrams cut short at the tail, bare IPFIX message headers whose Length field announces up to a buffer of sets): whatever the worker publishes for a datagram must be what the received octets alone decode to - a message built from octets that were not received is work and output not bounded by the datagram. distinct = scenario configuration")
	} else if mode == "alias" && protoOnly != "" {
		run.SetRule("pipeline tier of " + prop + ": the C12 scenarios restricted to " + protoOnly + " - what the real worker goroutine publishes for a datagram (decode + JSON encoding + hand-over to the queue, with bursts queued behind a consumer that drains only at barriers) must be byte-for-byte the stand-alone library decode and encoding that the first tier validates field by field. distinct = scenario configuration")
	} else if mode == "alias" {
		run.SetRule("scenarios for the in-repo driver (real ipfixWorker/netflowV9Worker/netflowV5Worker/sFlowWorker goroutines, real channels and sync.Pool buffers): templates announced and frozen behind a barrier (workers joined), then 100-900 datagrams of alternating size (maximum-size followed by tiny) from 1-50 exporters, each with a unique identity (exporter, sequence) and identity-derived values; worker counts {1,2,3,8,64,200} × GOMAXPROCS {1,2,16} × max-udp-size {512,1500,9000}, plain and race builds. The message-queue channel is drained only after the workers joined. Oracle: every published payload is byte-for-byte what the library decoder produces for that datagram alone on a private cache fed the same templates (sFlow collector time masked). distinct = scenario configuration; non-trivial = something was published")
	} else {
		run.SetRule("as C12, with mixes of decodable, template-only, unknown-template, malformed, truncated and empty datagrams and worker churn (quit channels closed / workers added mid-stream). Oracle over the event log: each datagram that yields records is published exactly once, nothing else is published, no identity twice; DecodedCount lies in [definite successes, definite + partial] (partial = message together with an error, or sFlow success with zero samples: 'decodes successfully' is undefined for them). UDPCount belongs to run() and is checked by the end-to-end tier")
	}
	run.Assume("the driver re-implements the four lines of run() that hand a pool buffer to the workers; run() itself is exercised end to end (e2e engine)")
	run.Finish()
}

// aliasLike: properties judged by "what is published equals the stand-alone decode, byte for byte".
func aliasLike(prop string) bool {
	switch prop {
	case "C12", "C05", "C03", "C06", "C07", "C08", "C02", "C09":
		return true
	}
	return false
}
