package main

// step mirrors the driver's scenario step.
type step struct {
	Op    string `json:"op"`
	Addr  string `json:"addr,omitempty"`
	Port  int    `json:"port,omitempty"`
	Dgram string `json:"dgram,omitempty"`
	ID    int    `json:"id,omitempty"`
	N     int    `json:"n,omitempty"`
}

type scenario struct {
	Proto        string   `json:"proto"`
	UDPSize      int      `json:"udp_size"`
	OtherUDPSize int      `json:"other_udp_size,omitempty"` // max-udp-size of the protocols the scenario does not drive
	Workers      int      `json:"workers"`
	GoMaxProcs   int      `json:"gomaxprocs"`
	CacheFile    string   `json:"cache_file"`
	ElementsDir  string   `json:"elements_dir"`
	MirrorAddr   string   `json:"mirror_addr"`
	MirrorPort   int      `json:"mirror_port"`
	MirrorWait   string   `json:"mirror_wait_file"`
	TypeFilter   []uint32 `json:"type_filter"`
	Verbose      bool     `json:"verbose"`
	Steps        []step   `json:"steps"`
}
