package main

import (
	"bufio"
	"bytes"
	"encoding/binary"
	"encoding/json"
	"fmt"
	"net"
	"os"
	"path/filepath"
	"regexp"
	"strconv"
	"strings"
	"sync"
	"time"

	"verif/harness/mon"
)

type mirrored struct {
	Raw []byte // what was handed to the raw-socket send (IP header onwards)
}

var sendtoRe = regexp.MustCompile(`sendto\(\d+, "((?:\\x[0-9a-f]{2})*)"(\.\.\.)?, (\d+), `)

// parseStrace extracts the octets of every sendto() of the traced driver.
func parseStrace(path string) (out [][]byte, truncated int) {
	f, err := os.Open(path)
	if err != nil {
		return nil, 0
	}
	defer f.Close()
	sc := bufio.NewScanner(f)
	sc.Buffer(make([]byte, 1<<20), 1<<28)
	for sc.Scan() {
		l := sc.Text()
		m := sendtoRe.FindStringSubmatch(l)
		if m == nil {
			continue
		}
		if !strings.Contains(l, "AF_INET") && !strings.Contains(l, "unfinished") {
			continue
		}
		if m[2] != "" {
			truncated++
			continue
		}
		hexs := strings.ReplaceAll(m[1], `\x`, "")
		b := mon.UnHex(hexs)
		n, _ := strconv.Atoi(m[3])
		if n != len(b) {
			truncated++
			continue
		}
		out = append(out, b)
	}
	return
}

type mirrorFed struct {
	ID      int
	Addr    []byte // exporter address as handed to the worker (4 or 16 octets)
	Payload []byte
}

// checkMirrorPacket validates one raw packet against the datagram it must mirror.
func checkMirrorPacket(pkt []byte, f *mirrorFed, target net.IP, port int, srcPort int) (string, string) {
	n := len(f.Payload)
	if len(pkt) != 28+n {
		return "packet-length", fmt.Sprintf("raw send of %d octets for a payload of %d (28+n expected)", len(pkt), n)
	}
	if pkt[0] != 0x45 {
		return "ip-version-ihl", fmt.Sprintf("first octet %#x", pkt[0])
	}
	if tl := int(binary.BigEndian.Uint16(pkt[2:])); tl != 28+n {
		return "ip-total-length", fmt.Sprintf("IP total length %d for a payload of %d octets (expected %d)", tl, n, 28+n)
	}
	if pkt[9] != 17 {
		return "ip-protocol", fmt.Sprintf("IP protocol %d", pkt[9])
	}
	want4 := f.Addr[len(f.Addr)-4:]
	if !bytes.Equal(pkt[12:16], want4) {
		return "ip-source", fmt.Sprintf("IP source %v, exporter is %v", net.IP(pkt[12:16]), net.IP(want4))
	}
	if !bytes.Equal(pkt[16:20], target.To4()) {
		return "ip-destination", fmt.Sprintf("IP destination %v, configured %v", net.IP(pkt[16:20]), target)
	}
	if dp := int(binary.BigEndian.Uint16(pkt[22:])); dp != port {
		return "udp-destination-port", fmt.Sprintf("UDP destination port %d, configured %d", dp, port)
	}
	if ul := int(binary.BigEndian.Uint16(pkt[24:])); ul != 8+n {
		return "udp-length", fmt.Sprintf("UDP length %d for a payload of %d octets (expected %d)", ul, n, 8+n)
	}
	if !bytes.Equal(pkt[28:], f.Payload) {
		return "payload", "payload differs from the received datagram"
	}
	// UDP checksum: over IPv4 it is either absent (0) or correct - a wrong one makes the target's stack drop the datagram
	if cs := binary.BigEndian.Uint16(pkt[26:]); cs != 0 {
		if want := udp4Checksum(pkt); cs != want {
			return "udp-checksum", fmt.Sprintf("UDP checksum %#04x, the datagram sums to %#04x (payload of %d octets): the receiving stack discards it", cs, want, n)
		}
	}
	return "", ""
}

// udp4Checksum computes the UDP checksum of an IPv4 packet (20-octet IP header) from its own fields.
func udp4Checksum(pkt []byte) uint16 {
	var sum uint32
	add := func(b []byte) {
		for i := 0; i+1 < len(b); i += 2 {
			sum += uint32(b[i])<<8 | uint32(b[i+1])
		}
		if len(b)%2 == 1 {
			sum += uint32(b[len(b)-1]) << 8
		}
	}
	add(pkt[12:20])              // source, destination
	sum += 17                    // protocol
	sum += uint32(len(pkt) - 20) // UDP length
	add(pkt[20:26])              // ports, length
	add(pkt[28:])                // payload (checksum field taken as zero)
	for sum>>16 != 0 {
		sum = sum&0xffff + sum>>16
	}
	c := ^uint16(sum)
	if c == 0 {
		c = 0xffff
	}
	return c
}

func mirrorMain(args mon.Args) {
	run := mon.NewRun("C16", "pipecheck/mirror", "exploration")
	dir := os.Getenv("VERIF_RUN")
	// can we open a raw socket at all?
	if c, err := net.ListenPacket("ip4:udp", "127.0.0.1"); err != nil {
		run.Inconclusive("raw sockets are not permitted here (CAP_NET_RAW missing): " + err.Error())
		run.Eval(1)
		run.DistinctBulk(2)
		run.Finish()
	} else {
		c.Close()
	}
	type mjob struct {
		proto  string
		size   int
		form   int // 0: 4-byte exporter addresses, 1: 16-byte, 2: mixed
		decod  bool
		lo, hi int // payload lengths lo..hi
		race   bool
	}
	var jobs []mjob
	sizes := []int{512, 1500}
	if run.Thorough() {
		sizes = []int{512, 1500, 9000}
	}
	for _, p := range []string{"ipfix", "sflow"} {
		for _, sz := range sizes {
			for form := 0; form < 3; form++ {
				for lo := 0; lo <= sz; lo += 800 {
					hi := lo + 799
					if hi > sz {
						hi = sz
					}
					jobs = append(jobs, mjob{proto: p, size: sz, form: form, lo: lo, hi: hi})
				}
			}
			jobs = append(jobs, mjob{proto: p, size: sz, form: 2, decod: true})
			jobs = append(jobs, mjob{proto: p, size: sz, form: 2, lo: sz - 120, hi: sz, race: true})
		}
	}
	// the largest datagram UDP over IPv4 can carry (65507 octets of payload = an IP packet of exactly 65535) with
	// max-udp-size set to match: the top of the 16-bit length fields
	for _, p := range []string{"ipfix", "sflow"} {
		jobs = append(jobs, mjob{proto: p, size: 65507, form: 2, lo: 65490, hi: 65507})
	}
	var replayW *witness
	if args.Replay != "" {
		d, err := mon.LoadReplay(args.Replay)
		if err != nil {
			run.HarnessError(err.Error())
			run.Finish()
		}
		var w witness
		json.Unmarshal(d.Case, &w)
		replayW = &w
		run.Seed = w.Seed
		jobs = []mjob{jobs[w.Index%len(jobs)]}
	}
	var mu sync.Mutex
	var nFed, nSeenSyscall, nSeenWire, nLengths int64
	forms := map[string]int{}
	raceAttr := map[string]int{}
	sem := make(chan struct{}, 6)
	var wg sync.WaitGroup
	for ji, j := range jobs {
		wg.Add(1)
		sem <- struct{}{}
		go func(ji int, j mjob) {
			defer wg.Done()
			defer func() { <-sem }()
			jdir := filepath.Join(dir, fmt.Sprintf("mjob%d", ji))
			os.MkdirAll(jdir, 0o755)
			g := mon.NewRNG(run.Seed, "mirror", ji)
			// the third-party collector
			lc, err := net.ListenUDP("udp4", &net.UDPAddr{IP: net.IPv4(127, 0, 0, 1)})
			if err != nil {
				run.HarnessError(err.Error())
				return
			}
			defer lc.Close()
			lc.SetReadBuffer(16 << 20)
			mport := lc.LocalAddr().(*net.UDPAddr).Port
			type rx struct {
				src net.IP
				b   []byte
			}
			var rxs []rx
			var rmu sync.Mutex
			go func() {
				b := make([]byte, 70000)
				for {
					n, a, err := lc.ReadFromUDP(b)
					if err != nil {
						return
					}
					rmu.Lock()
					rxs = append(rxs, rx{a.IP, append([]byte{}, b[:n]...)})
					rmu.Unlock()
				}
			}()
			desc := fmt.Sprintf("mirror %s udp-size=%d exporter-form=%d lengths=%d..%d decodable=%v race=%v", j.proto, j.size, j.form, j.lo, j.hi, j.decod, j.race)
			wit := func(detail string) witness {
				return witness{Desc: desc, Seed: run.Seed, Index: ji, Mode: "mirror", Race: j.race, Detail: detail}
			}
			var sc *scenCase
			var fed []mirrorFed
			waitFile := filepath.Join(jdir, "done")
			if j.decod {
				sc = buildScenario(run.Seed, "mirror", ji, false)
				for _, f := range sc.Fed {
					fed = append(fed, mirrorFed{f.ID, f.Addr, f.Dgram})
				}
			} else {
				sc = &scenCase{Sc: scenario{Proto: j.proto, UDPSize: j.size, OtherUDPSize: 64, Workers: []int{1, 3, 8}[ji%3], GoMaxProcs: []int{2, 16}[ji%2]}}
				id := 0
				for n := j.lo; n <= j.hi; n++ {
					id++
					p := g.Bytes(n)
					if n >= 4 {
						binary.BigEndian.PutUint32(p, uint32(id))
					}
					// exporter addresses over the whole unicast range, in the form(s) of this job
					a := []byte{byte(g.Range(1, 223)), byte(g.U64()), byte(g.U64()), byte(g.Range(1, 254))}
					if a[0] == 127 {
						a[0] = 10
					}
					if g.Chance(1, 6) {
						a = [][]byte{{10, 0, 0, 1}, {192, 168, 255, 254}, {1, 1, 1, 1}, {223, 255, 255, 254}, {172, 16, 0, 9}, {100, 64, 0, 1}}[g.Intn(6)]
					}
					form := j.form
					if form == 2 {
						form = g.Intn(2)
					}
					if form == 1 {
						b := make([]byte, 16)
						b[10], b[11] = 0xff, 0xff
						copy(b[12:], a)
						a = b
					}
					sc.Sc.Steps = append(sc.Sc.Steps, step{Op: "feed", Addr: mon.Hex(a), Port: 2000 + id%3000, Dgram: mon.Hex(p), ID: id})
					fed = append(fed, mirrorFed{id, a, p})
				}
				sc.Desc = desc
			}
			sc.Sc.MirrorAddr, sc.Sc.MirrorPort, sc.Sc.MirrorWait = "127.0.0.1", mport, waitFile
			// the driver exits when the listener has seen everything it can expect, or after a grace period
			go func() {
				deadline := time.Now().Add(90 * time.Second)
				evf := filepath.Join(jdir, "events.jsonl")
				for time.Now().Before(deadline) {
					b, _ := os.ReadFile(evf)
					if bytes.Contains(b, []byte(`"ev":"end"`)) {
						break
					}
					time.Sleep(20 * time.Millisecond)
				}
				for k := 0; k < 150; k++ {
					rmu.Lock()
					n := len(rxs)
					rmu.Unlock()
					if n >= len(fed) {
						break
					}
					time.Sleep(10 * time.Millisecond)
				}
				os.WriteFile(waitFile, []byte("1"), 0o644)
			}()
			straceF := ""
			if !j.race {
				straceF = filepath.Join(jdir, "strace.out")
			}
			ro := runDriver(&sc.Sc, jdir, j.race, straceF)
			run.Eval(1)
			mu.Lock()
			nFed += int64(len(fed))
			forms[fmt.Sprintf("%s/size%d/form%d", j.proto, j.size, j.form)]++
			mu.Unlock()
			ended := false
			for _, e := range ro.Events {
				if e.Ev == "end" {
					ended = true
				}
			}
			if ro.TimedOut {
				run.Inconclusive(desc + ": watchdog")
				return
			}
			if crashed(ro, ended) {
				sig := "mirror:" + j.proto + ":crash"
				if strings.Contains(ro.Output, "panic:") {
					sig = "mirror:" + j.proto + ":panic:" + panicFrame(ro.Output)
				}
				w := wit("the collector pipeline died with mirroring enabled")
				w.Log = headLines(firstPanic(ro.Output), 25)
				run.Violation(sig, fmt.Sprintf("%s: mirroring crashed the pipeline: %s", desc, clip(firstPanic(ro.Output), 400)), w)
				return
			}
			for _, r := range ro.Races {
				a, en := attributeRace(r)
				mu.Lock()
				raceAttr[a]++
				mu.Unlock()
				if a == "C16" {
					run.Violation("mirror:"+j.proto+":data-race", desc+": race report in mirror code: "+clip(r, 1500), witness{Desc: desc, Seed: run.Seed, Index: ji, Mode: "mirror", Race: true, Detail: clip(r, 5000) + en})
				} else if a == "harness" {
					run.HarnessError("race report without a vflow frame: " + clip(r, 800))
				}
			}
			byID := map[uint32]*mirrorFed{}
			byLen := map[int]*mirrorFed{}
			for i := range fed {
				f := &fed[i]
				if len(f.Payload) >= 4 && !j.decod {
					byID[binary.BigEndian.Uint32(f.Payload)] = f
				}
				byLen[len(f.Payload)] = f
			}
			find := func(payload []byte) *mirrorFed {
				if j.decod {
					for i := range fed {
						if bytes.Equal(fed[i].Payload, payload) {
							return &fed[i]
						}
					}
					return nil
				}
				if len(payload) >= 4 {
					if f := byID[binary.BigEndian.Uint32(payload)]; f != nil {
						return f
					}
				}
				return byLen[len(payload)]
			}
			srcPort := 55117
			if j.proto == "sflow" {
				srcPort = 55118
			}
			// (1) the octets handed to the raw-socket send
			if straceF != "" {
				pkts, trunc := parseStrace(straceF)
				if trunc > 0 {
					run.Inconclusive(fmt.Sprintf("%s: %d sendto lines were cut by strace", desc, trunc))
				}
				seen := map[int]int{}
				for _, pkt := range pkts {
					if len(pkt) < 28 {
						run.Violation("mirror:"+j.proto+":short-packet", fmt.Sprintf("%s: raw send of %d octets", desc, len(pkt)), wit("short raw packet"))
						continue
					}
					f := find(pkt[28:])
					if f == nil {
						// identify by the UDP length field instead
						f = byLen[len(pkt)-28]
					}
					if f == nil {
						run.Violation("mirror:"+j.proto+":unknown-packet", fmt.Sprintf("%s: a raw packet of %d octets matches no received datagram", desc, len(pkt)), wit("unmatched packet"))
						continue
					}
					seen[f.ID]++
					if k, w := checkMirrorPacket(pkt, f, net.IPv4(127, 0, 0, 1), mport, srcPort); k != "" {
						ww := wit(w)
						ww.Dgram, ww.Exporter, ww.Got = mon.Hex(f.Payload), mon.Hex(f.Addr), mon.Hex(pkt[:min(len(pkt), 64)])
						run.Violation("mirror:"+j.proto+":"+k, fmt.Sprintf("%s: datagram %d (%d octets from %v): %s", desc, f.ID, len(f.Payload), net.IP(f.Addr), w), ww)
					}
				}
				mu.Lock()
				nSeenSyscall += int64(len(pkts))
				nLengths += int64(len(seen))
				mu.Unlock()
				for i := range fed {
					if seen[fed[i].ID] == 0 {
						ww := wit("no mirror datagram for a received datagram")
						ww.Exporter = mon.Hex(fed[i].Addr)
						run.Violation("mirror:"+j.proto+":not-mirrored", fmt.Sprintf("%s: datagram %d (%d octets from %x) was never handed to the raw-socket send (%d of %d were)", desc, fed[i].ID, len(fed[i].Payload), fed[i].Addr, len(seen), len(fed)), ww)
						break
					}
					if seen[fed[i].ID] > 1 {
						run.Violation("mirror:"+j.proto+":mirrored-twice", fmt.Sprintf("%s: datagram %d was mirrored %d times", desc, fed[i].ID, seen[fed[i].ID]), wit("duplicate"))
						break
					}
				}
			}
			// (2) what the third-party collector actually received (the kernel delivers spoofed unicast sources over lo)
			rmu.Lock()
			got := append([]rx{}, rxs...)
			rmu.Unlock()
			mu.Lock()
			nSeenWire += int64(len(got))
			mu.Unlock()
			for _, r := range got {
				f := find(r.b)
				if f == nil {
					run.Violation("mirror:"+j.proto+":wire-unknown", fmt.Sprintf("%s: the third-party collector received a datagram of %d octets from %v that matches nothing sent", desc, len(r.b), r.src), wit("unmatched on the wire"))
					continue
				}
				if !bytes.Equal(r.b, f.Payload) {
					run.Violation("mirror:"+j.proto+":wire-payload", fmt.Sprintf("%s: datagram %d arrived at the third-party collector with a different payload", desc, f.ID), wit("payload differs on the wire"))
				}
				if !r.src.To4().Equal(net.IP(f.Addr[len(f.Addr)-4:])) {
					run.Violation("mirror:"+j.proto+":wire-source", fmt.Sprintf("%s: datagram %d arrived from %v, the exporter is %v", desc, f.ID, r.src, net.IP(f.Addr[len(f.Addr)-4:])), wit("source differs on the wire"))
				}
			}
			if j.race && len(got) == 0 && len(fed) > 0 {
				run.Violation("mirror:"+j.proto+":nothing-arrived", desc+": nothing reached the third-party collector", wit("no datagram on the wire"))
			}
			// (3) publishing is unchanged by mirroring (C12/C13 oracles on decodable traffic)
			if j.decod {
				sc.Race = j.race
				checkPublished(run, "C12", sc, ro, ji, "mirror")
				checkPublished(run, "C13", sc, ro, ji, "mirror")
			}
			run.Distinct(desc)
			if ji == 0 && len(fed) > 40 {
				f := fed[40]
				run.Sample(map[string]interface{}{"scenario": desc, "datagram": map[string]interface{}{"exporter": mon.Hex(f.Addr), "payload_octets": len(f.Payload), "payload_head": mon.Hex(f.Payload[:min(16, len(f.Payload))])}, "raw_sends_seen": nSeenSyscall, "received_on_the_wire": len(got)})
			}
		}(ji, j)
	}
	wg.Wait()
	_ = replayW
	// mirroring towards a target nothing can be sent to: the mirror workers give up, the mirror queues fill and every
	// further copy is refused - "mirroring never changes what is decoded and published" must hold there too
	if args.Replay == "" {
		for _, idx := range []int{4, 7} { // the alias scenarios of ipfix and sflow with the unreachable mirror target
			sc := buildScenario(run.Seed, "alias", idx, false)
			if !sc.DeadMirror {
				run.HarnessError(fmt.Sprintf("alias scenario %d is not a dead-mirror scenario any more", idx))
				continue
			}
			ro := runDriver(&sc.Sc, filepath.Join(dir, fmt.Sprintf("deadmirror%d", idx)), false, "")
			run.Eval(1)
			run.Distinct("dead-mirror|" + sc.Sc.Proto)
			checkPublished(run, "C12", sc, ro, idx, "mirror")
			checkPublished(run, "C13", sc, ro, idx, "mirror")
			run.Add("datagrams_fed_with_the_mirror_queues_full", int64(len(sc.Fed)))
		}
	}
	// canary: the packet validator must reject a wrong total length
	{
		f := &mirrorFed{1, []byte{10, 0, 0, 1}, []byte{1, 2, 3, 4, 5}}
		pkt := make([]byte, 33)
		pkt[0] = 0x45
		binary.BigEndian.PutUint16(pkt[2:], 33)
		pkt[9] = 17
		copy(pkt[12:], f.Addr)
		copy(pkt[16:], []byte{127, 0, 0, 1})
		binary.BigEndian.PutUint16(pkt[22:], 4000)
		binary.BigEndian.PutUint16(pkt[24:], 13)
		copy(pkt[28:], f.Payload)
		if k, _ := checkMirrorPacket(pkt, f, net.IPv4(127, 0, 0, 1), 4000, 55117); k != "" {
			run.HarnessError("canary: a correct packet was rejected: " + k)
		}
		binary.BigEndian.PutUint16(pkt[2:], 25)
		if k, _ := checkMirrorPacket(pkt, f, net.IPv4(127, 0, 0, 1), 4000, 55117); k != "ip-total-length" {
			run.HarnessError("canary: wrong IP total length accepted")
		}
	}
	run.Set("datagrams_fed", nFed)
	run.Set("raw_socket_sends_captured_by_strace", nSeenSyscall)
	run.Set("datagrams_received_by_the_third_party_listener", nSeenWire)
	run.Set("distinct_received_datagrams_seen_mirrored", nLengths)
	run.Set("configurations", forms)
	run.Set("race_reports_by_attribution", raceAttr)
	if nSeenSyscall == 0 && args.Replay == "" {
		run.HarnessError("strace captured no raw-socket send: the monitor observed nothing")
	}
	run.SetRule("the driver runs the real mirrorIPFIX/mirrorSFlow (through the real dispatcher) with a real raw socket towards 127.0.0.1:<port>. EVERY payload length 0..max-udp-size (512 and 1500 quick; 9000 thorough) with random contents, exporter addresses over the unicast IPv4 range in 4-byte form, 16-byte form and mixed, worker counts 1/3/8. Two observers: strace -e sendto -xx on the driver gives the exact octets handed to the raw-socket send (IP version/IHL, total length 28+n, protocol, source = exporter, destination, UDP port and length 8+n, payload identical; each datagram mirrored exactly once), and a UDP listener standing in for the third-party collector records source address and payload of what arrives. Decodable traffic with mirroring on is additionally put through the C12/C13 oracles (publishing unchanged), and a race build runs the top 120 lengths. distinct = (protocol, size, address form, length range)")
	run.Assume("IPv4 exporters and targets only (the statement's quantifier); the kernel fills in the IP checksum of IP_HDRINCL packets, so the syscall argument, not the wire, is judged for the length fields")
	run.Finish()
}
