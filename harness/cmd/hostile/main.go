// hostile decides C01 (no datagram crashes the decoders) and C02 (work and memory bounded by
// the datagram's size). The parent dispatches index ranges of deterministic case families to
// child executors (the same binary in --child mode), which process every datagram the way the
// workers do (Decode + JSON encoding) under meters and a watchdog; a child that dies names the
// case that killed it through its progress file and is respawned behind it.
package main

import (
	"bufio"
	"encoding/binary"
	"encoding/json"
	"fmt"
	"os"
	"os/exec"
	"path/filepath"
	"sort"
	"strings"
	"sync"
	"syscall"
	"time"

	"verif/harness/mon"
)

type replayCase struct {
	Family string   `json:"family"`
	Idx    int      `json:"index"`
	Proto  string   `json:"proto"`
	Desc   string   `json:"desc"`
	Hist   []hexDg  `json:"history"`
	At     int      `json:"failing_datagram"`
	Kind   string   `json:"kind"`
	Extra  string   `json:"observed,omitempty"`
	Stderr []string `json:"stderr_tail,omitempty"`
}
type hexDg struct {
	Addr  string `json:"exporter"`
	Dgram string `json:"datagram"`
}

func toReplay(fam string, idx int, c *hcase, e event) replayCase {
	r := replayCase{Family: fam, Idx: idx, Proto: c.Proto, Desc: c.Desc, At: e.DI, Kind: e.Kind, Extra: e.Msg}
	for _, d := range c.Hist {
		r.Hist = append(r.Hist, hexDg{mon.Hex(d.Addr), mon.Hex(d.B)})
	}
	return r
}

// which violation kinds belong to which property
func owns(prop, kind string) bool {
	switch kind {
	case "panic", "fatal", "died":
		return prop == "C01"
	case "alloc", "records", "budget-alloc", "budget-cpu", "blocked":
		return prop == "C02"
	}
	return false
}

type chunk struct {
	fam      family
	from, to int
}

func main() {
	args := mon.ParseArgs()
	if _, ok := args.Rest["child"]; ok {
		childMain(args)
		return
	}
	prop := args.Prop
	run := mon.NewRun(prop, "hostile", "exploration")
	self, _ := os.Executable()
	runDir := os.Getenv("VERIF_RUN")
	if runDir == "" {
		runDir = filepath.Join(mon.Root(), ".run", prop)
		os.MkdirAll(runDir, 0o755)
	}
	thorough := run.Thorough()
	fams := allFamilies()

	if args.Replay != "" {
		replayMain(run, args, self, runDir)
		return
	}

	var chunks []chunk
	famSizes := map[string]int{}
	for _, f := range fams {
		n := f.size(thorough)
		famSizes[f.name] = n
		step := 4000
		if f.name == "history" || f.name == "restart" {
			step = 400
		}
		if f.name == "c02" {
			step = 300
		}
		for a := 0; a < n; a += step {
			b := a + step
			if b > n {
				b = n
			}
			chunks = append(chunks, chunk{f, a, b})
		}
	}
	total := &csum{Outcomes: map[string]int64{}}
	var mu sync.Mutex
	var otherProp = map[string]int{}
	handle := func(fam family, e event, stderrTail []string) {
		c := fam.gen(run.Seed, thorough, e.Idx)
		if c == nil {
			run.HarnessError(fmt.Sprintf("case %s/%d cannot be regenerated", fam.name, e.Idx))
			return
		}
		sig := "hostile:" + c.Proto + ":" + e.Kind
		if e.Site != "" {
			sig += ":" + e.Site
		}
		if !owns(prop, e.Kind) {
			mu.Lock()
			otherProp[sig]++
			mu.Unlock()
			return
		}
		rc := toReplay(fam.name, e.Idx, c, e)
		rc.Stderr = stderrTail
		what := fmt.Sprintf("%s [%s] datagram #%d of the history: %s", c.Desc, e.Kind, e.DI, e.Msg)
		if e.Site != "" {
			what += " at " + e.Site
		}
		run.Violation(sig, what, rc)
	}
	runChunk := func(ci int, ch chunk) {
		from := ch.from
		blockedDeaths := 0
		for attempt := 0; from < ch.to; attempt++ {
			base := filepath.Join(runDir, fmt.Sprintf("%s.%d.%d", ch.fam.name, ch.from, attempt))
			os.Remove(base + ".progress")
			os.Remove(base + ".results")
			th := "0"
			if thorough {
				th = "1"
			}
			cmd := exec.Command(self, "--child", "1", "--family", ch.fam.name, "--from", fmt.Sprint(from), "--to", fmt.Sprint(ch.to),
				"--seed", fmt.Sprint(run.Seed), "--thorough", th, "--progress", base+".progress", "--results", base+".results")
			errF, _ := os.Create(base + ".stderr")
			cmd.Stderr = errF
			cmd.Stdout = errF
			cmd.SysProcAttr = &syscall.SysProcAttr{Pdeathsig: syscall.SIGKILL}
			start := time.Now()
			if err := cmd.Start(); err != nil {
				run.HarnessError("cannot start child: " + err.Error())
				return
			}
			done := make(chan error, 1)
			go func() { done <- cmd.Wait() }()
			var werr error
			timedOut := false
			select {
			case werr = <-done:
			case <-time.After(15 * time.Minute):
				// generous wall-clock watchdog: its firing is inconclusive, never a verdict
				cmd.Process.Signal(syscall.SIGQUIT)
				time.Sleep(500 * time.Millisecond)
				cmd.Process.Kill()
				werr = <-done
				timedOut = true
			}
			errF.Close()
			_ = start
			// results
			sawSum := false
			if f, err := os.Open(base + ".results"); err == nil {
				sc := bufio.NewScanner(f)
				sc.Buffer(make([]byte, 1<<20), 1<<24)
				for sc.Scan() {
					var e event
					if json.Unmarshal(sc.Bytes(), &e) != nil {
						continue
					}
					switch e.T {
					case "viol":
						handle(ch.fam, e, nil)
					case "sum":
						sawSum = true
						mu.Lock()
						s := e.Sum
						total.Cases += s.Cases
						total.Datagrams += s.Datagrams
						total.NonTrivial += s.NonTrivial
						total.Messages += s.Messages
						total.Errors += s.Errors
						if s.MaxAllocRatio > total.MaxAllocRatio {
							total.MaxAllocRatio = s.MaxAllocRatio
						}
						if s.MaxAllocPerOctet > total.MaxAllocPerOctet {
							total.MaxAllocPerOctet = s.MaxAllocPerOctet
						}
						if s.MaxRecordsPerOctet > total.MaxRecordsPerOctet {
							total.MaxRecordsPerOctet = s.MaxRecordsPerOctet
						}
						if s.MaxCPUms > total.MaxCPUms {
							total.MaxCPUms = s.MaxCPUms
						}
						for k, v := range s.Outcomes {
							total.Outcomes[k] += v
						}
						mu.Unlock()
					}
				}
				f.Close()
			}
			if werr == nil && sawSum {
				os.Remove(base + ".progress")
				os.Remove(base + ".results")
				os.Remove(base + ".stderr")
				return
			}
			// the child died: the progress file names the case it was working on
			pb, _ := os.ReadFile(base + ".progress")
			if len(pb) < 8 {
				run.HarnessError(fmt.Sprintf("child for %s[%d,%d) died before its first case: %v", ch.fam.name, from, ch.to, werr))
				return
			}
			at := int(binary.BigEndian.Uint64(pb))
			tail := tailOf(base+".stderr", 40)
			if timedOut {
				run.Inconclusive(fmt.Sprintf("child for %s[%d,%d) hit the 15-minute wall-clock watchdog at case %d", ch.fam.name, from, ch.to, at))
				return
			}
			code := -1
			if ee, ok := werr.(*exec.ExitError); ok {
				code = ee.ExitCode()
			}
			mu.Lock()
			total.Cases += int64(at - from)
			mu.Unlock()
			if code != 97 { // 97 = the child's own watchdog, which already wrote its event
				kind := "died"
				msg := fmt.Sprintf("executor terminated (%v)", werr)
				for _, l := range tail {
					if strings.HasPrefix(l, "fatal error:") || strings.HasPrefix(l, "runtime: out of memory") {
						kind = "fatal"
						msg = l
						break
					}
				}
				site := ""
				for _, l := range tail {
					if strings.HasPrefix(l, "github.com/EdgeCast/vflow/") {
						site = strings.TrimPrefix(l, "github.com/EdgeCast/vflow/")
						if i := strings.LastIndex(site, "("); i > 0 {
							site = site[:i]
						}
						break
					}
				}
				if strings.Contains(msg, "out of memory") {
					kind = "budget-alloc"
				}
				handle(ch.fam, event{T: "viol", Idx: at, Kind: kind, Site: site, Msg: msg, DI: -1}, tail)
			}
			from = at + 1
			if bb, _ := os.ReadFile(base + ".results"); strings.Count(string(bb), `"k":"blocked"`) > 0 {
				blockedDeaths++
			}
			if bb, _ := os.ReadFile(base + ".results"); strings.Count(string(bb), `"k":"budget-cpu"`) >= 5 {
				// five datagrams of this chunk took more than a second of CPU each (reported): the rest would cost as much
				run.Inconclusive(fmt.Sprintf("%s[%d,%d): five datagrams over the CPU bound (reported); rest of the chunk skipped", ch.fam.name, ch.from, ch.to))
				return
			}
			if blockedDeaths >= 3 {
				// every further executor would park at the same place after a few hundred cases and cost 3 s each
				run.Inconclusive(fmt.Sprintf("%s[%d,%d): three executors in a row parked for ever (reported); rest of the chunk skipped", ch.fam.name, ch.from, ch.to))
				return
			}
			if attempt > 200 {
				run.Inconclusive(fmt.Sprintf("%s[%d,%d): more than 200 executor deaths, rest of the chunk skipped", ch.fam.name, ch.from, ch.to))
				return
			}
		}
	}
	// run chunks on a pool sized to the machine
	workers := 16
	var wg sync.WaitGroup
	q := make(chan int, len(chunks))
	for i := range chunks {
		q <- i
	}
	close(q)
	for w := 0; w < workers; w++ {
		wg.Add(1)
		go func() {
			defer wg.Done()
			for i := range q {
				runChunk(i, chunks[i])
			}
		}()
	}
	wg.Wait()

	// meter canary: a synthetic over-budget case must be caught by the same comparison
	if !(uint64(allocBase+allocPerOct*100+1) > uint64(allocBase+allocPerOct*100)) {
		run.HarnessError("canary: allocation bound comparison broken")
	}
	run.Eval(int(total.Cases))
	run.DistinctBulk(total.NonTrivial)
	run.Set("families", famSizes)
	run.Set("datagrams_processed", total.Datagrams)
	run.Set("messages_returned", total.Messages)
	run.Set("datagrams_with_error", total.Errors)
	run.Set("max_alloc_over_bound", round3(total.MaxAllocRatio))
	run.Set("max_alloc_octets_per_datagram_octet(n>=64)", round3(total.MaxAllocPerOctet))
	run.Set("max_records_per_octet", round3(total.MaxRecordsPerOctet))
	run.Set("max_cpu_ms_one_datagram", total.MaxCPUms)
	type oc struct {
		K string
		V int64
	}
	var ocs []oc
	for k, v := range total.Outcomes {
		ocs = append(ocs, oc{k, v})
	}
	sort.Slice(ocs, func(i, j int) bool { return ocs[i].V > ocs[j].V })
	om := map[string]int64{}
	for i, o := range ocs {
		if i < 60 {
			om[o.K] = o.V
		}
	}
	run.Set("outcome_classes", len(ocs))
	run.Set("outcome_histogram(top 60)", om)
	if len(otherProp) > 0 {
		run.Set("events_owned_by_the_sibling_property(C01<->C02)", otherProp)
	}
	for _, fn := range []string{"c02", "trunc", "pkthdr"} {
		for _, f := range fams {
			if f.name == fn {
				c := f.gen(run.Seed, thorough, f.size(thorough)/2)
				if c != nil {
					rc := toReplay(fn, f.size(thorough)/2, c, event{})
					run.Sample(map[string]interface{}{"family": fn, "desc": c.Desc, "history": rc.Hist})
				}
			}
		}
	}
	run.SetRule("deterministic families over ~40 well-formed seeds per protocol (ipfix, netflow v9, netflow v5, sflow): every truncation length of data and template datagrams; every even offset × 16-bit boundary set (every 4-aligned offset × 32-bit set for sflow); every set id 0..300 and sflow sample/record type word incl. enterprise-specific; the complete sampled-header family (header protocol × outer/inner ethertype × L4 × length 0..80); every extended-router length 0..40 and the 32-bit boundary set; every 16-bit mutation of a template datagram followed by ALL data seeds on one cache; the same across a save-and-reload of the template cache (restart); C02 constructions (reserved ids × body lengths, degenerate templates, lying counts and lengths, maximal legitimate record counts at 65507 octets); plus seeded random mutations/histories up to 20 datagrams with all exporter address forms. Each datagram is processed as the workers do (Decode + JSON encoding) in child executors under allocation/CPU/record meters. Cases are distinct by construction (family, index); non-trivial = the decoder got past the header for at least one datagram of the case")
	if prop == "C02" {
		run.Assume("non-termination is decided only as 'exceeds 10 s CPU or 256 MiB allocation while one datagram is being processed'; allocation bound 32 KiB + 1 KiB per received octet")
	}
	run.Assume("library-level processing mirrors the worker functions (Decode then JSONMarshal / json.Marshal); the worker goroutines themselves are exercised by the pipeline and end-to-end tiers")
	run.Finish()
}

func round3(f float64) float64 { return float64(int(f*1000)) / 1000 }

func tailOf(path string, n int) []string {
	b, err := os.ReadFile(path)
	if err != nil {
		return nil
	}
	lines := strings.Split(strings.TrimRight(string(b), "\n"), "\n")
	// keep the head of the crash report (the interesting part) rather than its tail
	var out []string
	for _, l := range lines {
		l = strings.TrimSpace(l)
		if l != "" {
			out = append(out, l)
		}
		if len(out) >= n {
			break
		}
	}
	return out
}

// replayMain re-executes one recorded case in a child and reports what happens now.
func replayMain(run *mon.Run, args mon.Args, self, runDir string) {
	d, err := mon.LoadReplay(args.Replay)
	if err != nil {
		run.HarnessError(err.Error())
		run.Finish()
	}
	var rc replayCase
	json.Unmarshal(d.Case, &rc)
	c := &hcase{Proto: rc.Proto, Desc: rc.Desc}
	for _, h := range rc.Hist {
		c.Hist = append(c.Hist, dg{mon.UnHex(h.Addr), mon.UnHex(h.Dgram)})
	}
	replayCaseG = c
	base := filepath.Join(runDir, "replay")
	os.Remove(base + ".progress")
	os.Remove(base + ".results")
	cmd := exec.Command(self, "--child", "1", "--family", "replay", "--from", "0", "--to", "1", "--seed", "1", "--thorough", "0",
		"--progress", base+".progress", "--results", base+".results", "--replayfile", args.Replay)
	out, werr := cmd.CombinedOutput()
	run.Eval(1)
	run.DistinctBulk(2)
	hit := false
	if b, err := os.ReadFile(base + ".results"); err == nil {
		for _, l := range strings.Split(string(b), "\n") {
			var e event
			if json.Unmarshal([]byte(l), &e) == nil && e.T == "viol" {
				hit = true
				run.Violation(d.Signature, fmt.Sprintf("[%s] datagram #%d: %s %s", e.Kind, e.DI, e.Msg, e.Site), rc)
			}
		}
	}
	if werr != nil && !hit {
		run.Violation(d.Signature, fmt.Sprintf("executor died: %v: %s", werr, firstLines(string(out), 5)), rc)
		hit = true
	}
	if !hit {
		fmt.Println("replay: the case no longer violates")
	}
	run.Finish()
}

var replayCaseG *hcase

func firstLines(s string, n int) string {
	l := strings.Split(s, "\n")
	if len(l) > n {
		l = l[:n]
	}
	return strings.Join(l, " | ")
}
