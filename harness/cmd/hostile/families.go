package main

import (
	"fmt"
	"sort"

	"verif/harness/mon"
	"verif/harness/wire"
)

// A family is a deterministic, indexable list of hostile cases. Sweeps ignore the run seed;
// the random family is driven by it.
type family struct {
	name string
	size func(thorough bool) int
	gen  func(runSeed int64, thorough bool, idx int) *hcase
}

// seedStride: the quick tier sweeps every third seed, the thorough tier all of them.
func seedList(thorough bool) []int {
	var out []int
	for i := 0; i < nSeeds; i++ {
		if thorough || i%3 == 0 {
			out = append(out, i)
		}
	}
	return out
}

// table maps a flat index onto (item, sub-index) given per-item sizes.
type table struct {
	cum []int
}

func newTable(sizes []int) *table {
	t := &table{}
	n := 0
	for _, s := range sizes {
		n += s
		t.cum = append(t.cum, n)
	}
	return t
}
func (t *table) total() int {
	if len(t.cum) == 0 {
		return 0
	}
	return t.cum[len(t.cum)-1]
}
func (t *table) find(idx int) (item, sub int) {
	item = sort.SearchInts(t.cum, idx+1)
	prev := 0
	if item > 0 {
		prev = t.cum[item-1]
	}
	return item, idx - prev
}

type pitem struct {
	proto string
	s     int
	tpl   bool // mutate the template datagram instead of the data datagram
}

func items(thorough bool, withTpl bool) []pitem {
	var out []pitem
	for _, p := range protos {
		for _, s := range seedList(thorough) {
			out = append(out, pitem{p, s, false})
			if withTpl && (p == "ipfix" || p == "nf9") {
				out = append(out, pitem{p, s, true})
			}
		}
	}
	return out
}

func target(it pitem) (seed, []byte) {
	sd := seeds(it.proto)[it.s]
	if it.tpl {
		return sd, sd.Tpl
	}
	return sd, sd.Data
}

func withTarget(it pitem, sd seed, mutated []byte) []dg {
	if it.tpl {
		return []dg{{sd.Addr, mutated}, {sd.Addr, sd.Data}}
	}
	return sd.hist(it.proto, mutated)
}

var memo = map[string]*table{}

func tab(key string, f func() []int) *table {
	if t, ok := memo[key]; ok {
		return t
	}
	t := newTable(f())
	memo[key] = t
	return t
}

func famTrunc() family {
	mk := func(th bool) ([]pitem, *table) {
		its := items(th, true)
		return its, tab(fmt.Sprint("trunc", th), func() []int {
			var sz []int
			for _, it := range its {
				_, b := target(it)
				sz = append(sz, len(b)+1)
			}
			return sz
		})
	}
	return family{"trunc", func(th bool) int { _, t := mk(th); return t.total() },
		func(_ int64, th bool, idx int) *hcase {
			its, t := mk(th)
			i, cut := t.find(idx)
			sd, b := target(its[i])
			return &hcase{its[i].proto, withTarget(its[i], sd, cp(b[:cut])), fmt.Sprintf("trunc seed %d tpl=%v cut %d/%d", its[i].s, its[i].tpl, cut, len(b))}
		}}
}

func famField() family {
	mk := func(th bool) ([]pitem, *table) {
		its := items(th, true)
		return its, tab(fmt.Sprint("field", th), func() []int {
			var sz []int
			for _, it := range its {
				_, b := target(it)
				if it.proto == "sflow" {
					sz = append(sz, (len(b)/4)*(len(b32)+4))
				} else {
					sz = append(sz, (len(b)/2)*(len(b16)+4))
				}
			}
			return sz
		})
	}
	return family{"field", func(th bool) int { _, t := mk(th); return t.total() },
		func(_ int64, th bool, idx int) *hcase {
			its, t := mk(th)
			i, sub := t.find(idx)
			it := its[i]
			sd, b := target(it)
			m := cp(b)
			var desc string
			if it.proto == "sflow" {
				nv := len(b32) + 4
				off, vi := (sub/nv)*4, sub%nv
				orig := get32(m, off)
				v := orig
				switch {
				case vi < len(b32):
					v = b32[vi]
				case vi == len(b32):
					v = orig + 1
				case vi == len(b32)+1:
					v = orig - 1
				case vi == len(b32)+2:
					v = orig + 4
				default:
					v = orig - 4
				}
				put32(m, off, v)
				desc = fmt.Sprintf("field32 seed %d off %d %#x→%#x", it.s, off, orig, v)
			} else {
				nv := len(b16) + 4
				off, vi := (sub/nv)*2, sub%nv
				orig := get16(m, off)
				v := orig
				switch {
				case vi < len(b16):
					v = b16[vi]
				case vi == len(b16):
					v = orig + 1
				case vi == len(b16)+1:
					v = orig - 1
				case vi == len(b16)+2:
					v = orig + 4
				default:
					v = orig - 4
				}
				put16(m, off, v)
				desc = fmt.Sprintf("field16 %s seed %d tpl=%v off %d %#x→%#x", it.proto, it.s, it.tpl, off, orig, v)
			}
			return &hcase{it.proto, withTarget(it, sd, m), desc}
		}}
}

// famSetID: every set/flowset id 0..300 in the first set header of the data and of the template
// datagram; every sFlow sample type and record type incl. enterprise-specific ones.
func famSetID() family {
	const nID = 301
	sfTypes := func() []uint32 {
		var v []uint32
		for i := uint32(0); i <= 300; i++ {
			v = append(v, i)
		}
		for _, e := range []uint32{1, 2, 0x1234, 0xfffff} {
			for _, f := range []uint32{0, 1, 2, 3, 4, 1001, 1002, 0xfff} {
				v = append(v, e<<12|f)
			}
		}
		for i := uint32(1000); i <= 1010; i++ {
			v = append(v, i)
		}
		return v
	}()
	ns := 10
	size := func(th bool) int { return 2*2*ns*nID + 2*ns*len(sfTypes) }
	return family{"setid", size, func(_ int64, th bool, idx int) *hcase {
		if idx < 2*2*ns*nID {
			p := []string{"ipfix", "nf9"}[idx/(2*ns*nID)]
			r := idx % (2 * ns * nID)
			tpl := r/(ns*nID) == 1
			r %= ns * nID
			s, id := r/nID, r%nID
			it := pitem{p, s * 3, tpl}
			sd, b := target(it)
			m := cp(b)
			off := 16
			if p == "nf9" {
				off = 20
			}
			if len(m) < off+4 {
				return nil
			}
			put16(m, off, uint16(id))
			return &hcase{p, withTarget(it, sd, m), fmt.Sprintf("%s set id %d in first set (tpl=%v) of seed %d", p, id, tpl, s*3)}
		}
		r := idx - 2*2*ns*nID
		rec := r/(ns*len(sfTypes)) == 1
		r %= ns * len(sfTypes)
		s, ti := r/len(sfTypes), r%len(sfTypes)
		sd := seeds("sflow")[s]
		m := cp(sd.Data)
		hl := 28
		if get32(m, 4) == 2 {
			hl = 40
		}
		off := hl
		if rec {
			// first record of the first sample, if the first sample is a flow (8+32) or counter (8+12) sample
			switch get32(m, hl) {
			case 1:
				off = hl + 8 + 32
			case 2:
				off = hl + 8 + 12
			default:
				return nil
			}
		}
		if len(m) < off+4 {
			return nil
		}
		put32(m, off, sfTypes[ti])
		return &hcase{"sflow", sd.hist("sflow", m), fmt.Sprintf("sflow type word %#x at %d (record=%v) of seed %d", sfTypes[ti], off, rec, s)}
	}}
}

// famPktHdr enumerates the sampled-header family completely.
func famPktHdr() family {
	hp := []uint32{0, 1, 2, 11, 12, 13}
	et := []uint16{0x0800, 0x86DD, 0x8100, 0x0806, 0x88a8, 0}
	l4 := []uint8{1, 6, 17, 58, 0, 47}
	const nLen = 81
	size := func(bool) int { return len(hp) * len(et) * len(et) * len(l4) * nLen }
	return family{"pkthdr", size, func(_ int64, _ bool, idx int) *hcase {
		li := idx % nLen
		idx /= nLen
		p4 := l4[idx%len(l4)]
		idx /= len(l4)
		inner := et[idx%len(et)]
		idx /= len(et)
		outer := et[idx%len(et)]
		idx /= len(et)
		proto := hp[idx%len(hp)]
		g := mon.NewRNG(3, "pkthdr", idx)
		p := wire.GenPkt(g)
		p.HeaderProto = 1 // build with an Ethernet header, then relabel
		p.HasVlan = outer == 0x8100
		p.EtherType = outer
		if p.HasVlan {
			p.EtherType = inner
		}
		p.V6 = p.EtherType == 0x86DD || (proto == 12)
		p.IPProto, p.NextHdr = p4, p4
		p.Rest = g.Bytes(8)
		hdr := p.Encode()
		if proto != 1 {
			// bare L3: strip the Ethernet part
			strip := 14
			if p.HasVlan {
				strip = 18
			}
			hdr = hdr[strip:]
		}
		for len(hdr) < li {
			hdr = append(hdr, 0)
		}
		hdr = hdr[:li]
		pm := &wire.PktModel{HeaderProto: proto}
		d := &wire.SFDatagram{Version: 5, Agent: []byte{1, 2, 3, 4}, Samples: []wire.SFSample{{TypeWord: 1, Kind: "flow", Seq: 1,
			Recs: []wire.SFRec{{Format: 1, Kind: "raw", Pkt: pm, FrameLen: 100, Header: hdr}, {Format: 1001, Kind: "extswitch", Vals: []uint64{1, 2, 3, 4}}}}}}
		return &hcase{"sflow", []dg{{[]byte{10, 0, 0, 1}, d.Encode()}}, fmt.Sprintf("sampled header proto %d outer %#x inner %#x l4 %d len %d", proto, outer, inner, p4, li)}
	}}
}

// famExtRouter: every extended-router record length 0..40 and the 32-bit boundary set, with 0, 16 and 28 body octets present.
func famExtRouter() family {
	var lens []uint32
	for i := uint32(0); i <= 40; i++ {
		lens = append(lens, i)
	}
	lens = append(lens, b32...)
	bodies := []int{0, 4, 16, 28, 64}
	size := func(bool) int { return len(lens) * len(bodies) * 2 }
	return family{"extrouter", size, func(_ int64, _ bool, idx int) *hcase {
		last := idx%2 == 1
		idx /= 2
		l := lens[idx%len(lens)]
		body := bodies[idx/len(lens)]
		g := mon.NewRNG(3, "extrouter", idx)
		rec := wire.SFRec{Format: 1002, Kind: "unknown", Opaque: g.Bytes(body), LenOverride: &l}
		recs := []wire.SFRec{rec, {Format: 1001, Kind: "extswitch", Vals: []uint64{1, 2, 3, 4}}}
		if last {
			recs = []wire.SFRec{rec}
		}
		d := &wire.SFDatagram{Version: 5, Agent: []byte{1, 2, 3, 4}, Samples: []wire.SFSample{{TypeWord: 1, Kind: "flow", Seq: 1, Recs: recs}}}
		return &hcase{"sflow", []dg{{[]byte{10, 0, 0, 1}, d.Encode()}}, fmt.Sprintf("ext-router declared length %d, %d body octets, last=%v", l, body, last)}
	}}
}

// famHistory: every 16-bit mutation of a template datagram, followed by EVERY data seed of the
// protocol on the same cache (same exporter, template ids from a pool of four).
func famHistory() family {
	mk := func(th bool) ([]pitem, *table) {
		var its []pitem
		for _, p := range []string{"ipfix", "nf9"} {
			for _, s := range seedList(th) {
				its = append(its, pitem{p, s, true})
			}
		}
		return its, tab(fmt.Sprint("history", th), func() []int {
			var sz []int
			for _, it := range its {
				_, b := target(it)
				off0 := 16
				if it.proto == "nf9" {
					off0 = 20
				}
				n := (len(b) - off0) / 2
				if n < 0 {
					n = 0
				}
				sz = append(sz, n*len(b16))
			}
			return sz
		})
	}
	return family{"history", func(th bool) int { _, t := mk(th); return t.total() },
		func(_ int64, th bool, idx int) *hcase {
			its, t := mk(th)
			i, sub := t.find(idx)
			it := its[i]
			sd, b := target(it)
			off0 := 16
			if it.proto == "nf9" {
				off0 = 20
			}
			off, vi := off0+(sub/len(b16))*2, sub%len(b16)
			m := cp(b)
			put16(m, off, b16[vi])
			h := []dg{{sd.Addr, m}}
			for _, o := range seeds(it.proto) {
				h = append(h, dg{sd.Addr, o.Data})
			}
			return &hcase{it.proto, h, fmt.Sprintf("history %s: template of seed %d with octets %d..%d = %#x, then all %d data seeds", it.proto, it.s, off, off+1, b16[vi], nSeeds)}
		}}
}

// famRestart: histories that cross a restart. Every seed: templates, save+reload, data; and every 16-bit
// mutation of the template datagram, save+reload, then ALL data seeds (cache states reachable through the
// cache file are reachable states too).
func famRestart() family {
	mk := func(th bool) ([]pitem, *table) {
		var its []pitem
		for _, p := range []string{"ipfix", "nf9"} {
			for _, s := range seedList(th) {
				its = append(its, pitem{p, s, true})
			}
		}
		return its, tab(fmt.Sprint("restart", th), func() []int {
			var sz []int
			for _, it := range its {
				_, b := target(it)
				off0 := 16
				if it.proto == "nf9" {
					off0 = 20
				}
				n := (len(b) - off0) / 2
				if n < 0 {
					n = 0
				}
				sz = append(sz, 1+n*4)
			}
			return sz
		})
	}
	vals := []uint16{0, 1, 0x8001, 0xffff}
	return family{"restart", func(th bool) int { _, t := mk(th); return t.total() },
		func(_ int64, th bool, idx int) *hcase {
			its, t := mk(th)
			i, sub := t.find(idx)
			it := its[i]
			sd, b := target(it)
			m := cp(b)
			desc := fmt.Sprintf("restart %s: templates of seed %d, save and reload the cache, then all %d data seeds", it.proto, it.s, nSeeds)
			if sub > 0 {
				off0 := 16
				if it.proto == "nf9" {
					off0 = 20
				}
				off, vi := off0+((sub-1)/4)*2, (sub-1)%4
				put16(m, off, vals[vi])
				desc = fmt.Sprintf("restart %s: template datagram of seed %d with octets %d..%d = %#x, save and reload the cache, then all data seeds", it.proto, it.s, off, off+1, vals[vi])
			}
			h := []dg{{sd.Addr, m}, {nil, []byte(reloadMarker)}}
			for _, o := range seeds(it.proto) {
				h = append(h, dg{sd.Addr, o.Data})
			}
			h = append(h, dg{nil, []byte(reloadMarker)}, dg{sd.Addr, sd.Data})
			return &hcase{it.proto, h, desc}
		}}
}

// famRandom: seeded random mutations and histories.
func famRandom() family {
	return family{"random", func(th bool) int {
		if th {
			return 2000000
		}
		return 20000
	}, func(runSeed int64, _ bool, idx int) *hcase {
		g := mon.NewRNG(runSeed, "hostile-random", idx)
		p := protos[g.Intn(4)]
		ss := seeds(p)
		mut := func(b []byte) []byte {
			m := cp(b)
			for k := g.Range(1, 4); k > 0 && len(m) > 0; k-- {
				switch g.Intn(6) {
				case 0:
					i := g.Intn(len(m))
					m[i] ^= 1 << uint(g.Intn(8))
				case 1:
					i := g.Intn(len(m))
					m[i] = byte(g.U64())
				case 2:
					i := g.Intn(len(m) + 1)
					m = append(m[:i], append(g.Bytes(g.Range(1, 8)), m[i:]...)...)
				case 3:
					i := g.Intn(len(m))
					j := i + g.Range(1, 8)
					if j > len(m) {
						j = len(m)
					}
					m = append(m[:i], m[j:]...)
				case 4:
					o := ss[g.Intn(len(ss))].Data
					i, j := g.Intn(len(m)+1), g.Intn(len(o)+1)
					m = append(cp(m[:i]), o[j:]...)
				case 5:
					if len(m) >= 4 {
						i := g.Intn(len(m) - 3)
						put32(m, i, b32[g.Intn(len(b32))])
					}
				}
			}
			return m
		}
		addr := func(a []byte) []byte {
			switch g.Intn(8) {
			case 0:
				return nil
			case 1:
				return wire.GenAddr(g)
			case 2:
				return g.Bytes(g.Intn(20))
			}
			return a
		}
		var h []dg
		n := 1
		if g.Chance(1, 3) {
			n = g.Range(2, 20)
		}
		for k := 0; k < n; k++ {
			sd := ss[g.Intn(len(ss))]
			switch g.Intn(10) {
			case 0:
				if sd.Tpl != nil {
					h = append(h, dg{addr(sd.Addr), mut(sd.Tpl)})
				}
				h = append(h, dg{addr(sd.Addr), sd.Data})
			case 1:
				// random octets behind a valid-looking header, any length up to the UDP maximum
				l := g.Intn(2000)
				if g.Chance(1, 30) {
					l = g.Range(60000, 65507)
				}
				b := g.Bytes(l)
				if len(b) >= 8 {
					copy(b, sd.Data[:8])
				}
				h = append(h, dg{addr(sd.Addr), b})
			case 2:
				if sd.Tpl != nil {
					h = append(h, dg{addr(sd.Addr), sd.Tpl})
				}
				h = append(h, dg{addr(sd.Addr), mut(mut(sd.Data))})
			default:
				if sd.Tpl != nil && g.Chance(1, 2) {
					h = append(h, dg{addr(sd.Addr), sd.Tpl})
				}
				h = append(h, dg{addr(sd.Addr), mut(sd.Data)})
			}
		}
		return &hcase{p, h, fmt.Sprintf("random %s history of %d datagrams", p, len(h))}
	}}
}
