package main

import (
	"bufio"
	"bytes"
	"encoding/binary"
	"encoding/json"
	"fmt"
	"net"
	"os"
	"regexp"
	"runtime"
	"runtime/debug"
	"runtime/metrics"
	"strings"
	"sync/atomic"
	"syscall"
	"time"

	"github.com/EdgeCast/vflow/ipfix"
	netflow5 "github.com/EdgeCast/vflow/netflow/v5"
	netflow9 "github.com/EdgeCast/vflow/netflow/v9"
	"github.com/EdgeCast/vflow/sflow"

	"verif/harness/mon"
	"verif/harness/wire"
)

// budgets (DESIGN.md §1, C02): per datagram of n octets
const (
	allocBase   = 32 << 10
	allocPerOct = 1 << 10
	killAlloc   = 256 << 20 // in-flight kill threshold (4× the bound of a maximum-size datagram)
	killCPU     = 10 * time.Second
	softCPU     = 1 * time.Second // completed datagrams: CPU above this is reported (after a second measurement)
)

type event struct {
	T       string `json:"t"` // viol | sum
	Idx     int    `json:"idx"`
	Kind    string `json:"k,omitempty"` // panic | alloc | records | budget-alloc | budget-cpu
	Site    string `json:"site,omitempty"`
	Msg     string `json:"msg,omitempty"`
	DI      int    `json:"di"`
	N       int    `json:"n,omitempty"`
	Alloc   uint64 `json:"alloc,omitempty"`
	Records int    `json:"records,omitempty"`
	Sum     *csum  `json:"sum,omitempty"`
}

type csum struct {
	Cases, Datagrams, NonTrivial, Messages, Errors int64
	MaxAllocRatio                                  float64 // max of alloc / (32KiB + 1KiB·n)
	MaxAllocPerOctet                               float64 // max of alloc / max(n,64), datagrams ≥ 64 octets
	MaxRecordsPerOctet                             float64
	MaxCPUms                                       int64
	Outcomes                                       map[string]int64
}

var allocSample = []metrics.Sample{{Name: "/gc/heap/allocs:bytes"}}

func heapAllocs() uint64 {
	metrics.Read(allocSample)
	return allocSample[0].Value.Uint64()
}

func cpuNow() time.Duration {
	var ru syscall.Rusage
	syscall.Getrusage(syscall.RUSAGE_SELF, &ru)
	return time.Duration(ru.Utime.Nano() + ru.Stime.Nano())
}

var digits = regexp.MustCompile(`[0-9]+`)
var hexaddr = regexp.MustCompile(`0x[0-9a-f]+`)

// panicSite returns the innermost vflow function on the panicking stack.
func panicSite(stack string) string {
	lines := strings.Split(stack, "\n")
	seenPanic := false
	for _, l := range lines {
		if strings.HasPrefix(l, "panic(") {
			seenPanic = true
			continue
		}
		if !seenPanic {
			continue
		}
		if strings.HasPrefix(l, "github.com/EdgeCast/vflow/") {
			f := strings.TrimPrefix(l, "github.com/EdgeCast/vflow/")
			if i := strings.LastIndex(f, "("); i > 0 {
				f = f[:i]
			}
			return f
		}
	}
	return "unknown"
}

type caches struct {
	ic ipfix.MemCache
	nc netflow9.MemCache
}

// process runs one datagram the way the workers do: decode, then encode what would be published.
func process(proto string, addr, b []byte, c *caches) (gotMsg bool, records int, errText string) {
	switch proto {
	case "ipfix":
		msg, err := ipfix.NewDecoder(net.IP(addr), b).Decode(c.ic)
		if err != nil {
			errText = err.Error()
		}
		if msg == nil {
			return false, 0, errText
		}
		records = len(msg.DataSets)
		if len(msg.DataSets) > 0 {
			if _, jerr := msg.JSONMarshal(new(bytes.Buffer)); jerr != nil {
				errText += " | marshal: " + jerr.Error()
			}
		}
		return true, records, errText
	case "nf9":
		msg, err := netflow9.NewDecoder(net.IP(addr), b).Decode(c.nc)
		if err != nil {
			errText = err.Error()
		}
		if msg == nil {
			return false, 0, errText
		}
		records = len(msg.DataSets)
		if msg.DataSets != nil {
			if _, jerr := msg.JSONMarshal(new(bytes.Buffer)); jerr != nil {
				errText += " | marshal: " + jerr.Error()
			}
		}
		return true, records, errText
	case "nf5":
		msg, err := netflow5.NewDecoder(net.IP(addr), b).Decode()
		if err != nil {
			errText = err.Error()
		}
		if msg == nil {
			return false, 0, errText
		}
		records = len(msg.Flows)
		if msg.Flows != nil {
			if _, jerr := msg.JSONMarshal(new(bytes.Buffer)); jerr != nil {
				errText += " | marshal: " + jerr.Error()
			}
		}
		return true, records, errText
	case "sflow":
		d := sflow.NewSFDecoder(bytes.NewReader(b), nil)
		dg, err := d.SFDecode()
		if err != nil {
			errText = err.Error()
		}
		if dg == nil {
			return false, 0, errText
		}
		records = len(dg.Samples) + len(dg.Counters)
		for _, s := range dg.Samples {
			if fs, ok := s.(*sflow.FlowSample); ok {
				records += len(fs.Records)
			}
		}
		for _, s := range dg.Counters {
			if cs, ok := s.(*sflow.CounterSample); ok {
				records += len(cs.Records)
			}
		}
		if err == nil && (len(dg.Counters) > 0 || len(dg.Samples) > 0) {
			if _, jerr := json.Marshal(dg); jerr != nil {
				errText += " | marshal: " + jerr.Error()
			}
		}
		return true, records, errText
	}
	panic("unknown proto " + proto)
}

// remeasure replays c.Hist[0..di] on fresh caches and returns the allocation of datagram di.
func remeasure(c *hcase, di int) (al uint64) {
	defer func() {
		if recover() != nil {
			al = 1 << 62
		}
	}()
	cs := &caches{}
	if c.Proto == "ipfix" {
		cs.ic = ipfix.GetCache("")
	} else if c.Proto == "nf9" {
		cs.nc = netflow9.GetCache("")
	}
	var ms runtime.MemStats
	for i := 0; i <= di; i++ {
		if c.Hist[i].Addr == nil && string(c.Hist[i].B) == reloadMarker {
			continue
		}
		b := cp(c.Hist[i].B)
		if i == di {
			runtime.ReadMemStats(&ms)
			a0 := ms.TotalAlloc
			process(c.Proto, c.Hist[i].Addr, b, cs)
			runtime.ReadMemStats(&ms)
			return ms.TotalAlloc - a0
		}
		func() {
			defer func() { recover() }()
			process(c.Proto, c.Hist[i].Addr, b, cs)
		}()
	}
	return 0
}

// warmUp processes well-formed seeds of every protocol once, unmetered, so that lazily built
// per-type caches (encoding/json encoders, fmt) exist before anything is measured.
func warmUp() {
	for _, p := range protos {
		cs := &caches{ic: ipfix.GetCache(""), nc: netflow9.GetCache("")}
		for _, sd := range seeds(p) {
			for _, d := range sd.hist(p, sd.Data) {
				func() {
					defer func() { recover() }()
					process(p, d.Addr, cp(d.B), cs)
				}()
			}
		}
	}
	g := mon.NewRNG(5, "warm", 0)
	for i := 0; i < 300; i++ {
		d := wire.GenSFDatagram(g, true)
		func() {
			defer func() { recover() }()
			process("sflow", nil, d.Encode(), &caches{})
		}()
	}
}

func normErr(s string) string {
	if s == "" {
		return "ok"
	}
	if i := strings.IndexByte(s, '\n'); i > 0 {
		s = s[:i]
	}
	for _, k := range []string{"unknown ipfix template id#", "unknown netflow template id#", "describes zero-length records"} {
		if strings.Contains(s, k) {
			return k
		}
	}
	s = hexaddr.ReplaceAllString(s, "X")
	s = digits.ReplaceAllString(s, "N")
	// exporter address text
	s = regexp.MustCompile(`^[0-9a-fN:.<>nil]+ `).ReplaceAllString(s, "ADDR ")
	if len(s) > 80 {
		s = s[:80]
	}
	return s
}

// reloadMarker in a history (with a nil address) stands for "save the template cache, load it back".
const reloadMarker = "<<SAVE-AND-RELOAD-CACHE>>"

// shared with the watchdog
var (
	curIdx      int64 = -1
	curDI       int64
	curStartA   uint64
	curStartCPU int64
	curN        int64
	curWall     int64 // monotonic ns at which the datagram in flight was handed over
	inCase      int32
)

var procStart = time.Now()

// blockedState looks at the goroutine that runs the cases (the one with childMain on its stack) and
// says whether it is parked on a channel operation, a lock or a sleep - i.e. waiting for something,
// not computing. A goroutine that is merely starved of CPU on a loaded machine is "runnable" or
// "running", never any of these.
func blockedState() (state, site string, blocked bool) {
	buf := make([]byte, 1<<20)
	buf = buf[:runtime.Stack(buf, true)]
	for _, g := range strings.Split(string(buf), "\n\n") {
		if !strings.Contains(g, "main.childMain(") { // the case loop itself, not the closures childMain started
			continue
		}
		head := g
		if i := strings.IndexByte(g, '\n'); i > 0 {
			head = g[:i]
		}
		if i, j := strings.IndexByte(head, '['), strings.IndexByte(head, ']'); i >= 0 && j > i {
			state = head[i+1 : j]
		}
		for _, l := range strings.Split(g, "\n") {
			if strings.HasPrefix(l, "github.com/EdgeCast/vflow/") {
				site = strings.TrimPrefix(l, "github.com/EdgeCast/vflow/")
				if k := strings.LastIndex(site, "("); k > 0 {
					site = site[:k]
				}
				break
			}
		}
		st := state
		if k := strings.IndexByte(st, ','); k > 0 {
			st = st[:k]
		}
		switch {
		case strings.HasPrefix(st, "chan "), strings.HasPrefix(st, "select"), strings.HasPrefix(st, "semacquire"), strings.HasPrefix(st, "sync."), st == "sleep", st == "IO wait":
			return state, site, site != ""
		}
		return state, site, false
	}
	return "", "", false
}

func childMain(a mon.Args) {
	famName := a.Rest["family"]
	var from, to int
	fmt.Sscan(a.Rest["from"], &from)
	fmt.Sscan(a.Rest["to"], &to)
	var seed int64
	fmt.Sscan(a.Rest["seed"], &seed)
	thorough := a.Rest["thorough"] == "1"
	var fam *family
	for _, f := range allFamilies() {
		if f.name == famName {
			ff := f
			fam = &ff
		}
	}
	if fam == nil {
		fmt.Fprintln(os.Stderr, "unknown family", famName)
		os.Exit(3)
	}
	// address-space cap so that a count-driven allocation cannot take the machine down
	lim := syscall.Rlimit{Cur: 3 << 30, Max: 3 << 30}
	syscall.Setrlimit(syscall.RLIMIT_AS, &lim)
	debug.SetGCPercent(100)
	runtime.GOMAXPROCS(2)

	prog, err := os.OpenFile(a.Rest["progress"], os.O_CREATE|os.O_WRONLY, 0o644)
	if err != nil {
		fmt.Fprintln(os.Stderr, err)
		os.Exit(3)
	}
	resF, err := os.OpenFile(a.Rest["results"], os.O_CREATE|os.O_WRONLY|os.O_APPEND, 0o644)
	if err != nil {
		fmt.Fprintln(os.Stderr, err)
		os.Exit(3)
	}
	res := bufio.NewWriter(resF)
	emit := func(e event) {
		b, _ := json.Marshal(e)
		res.Write(b)
		res.WriteByte('\n')
		res.Flush()
	}
	// watchdog: in-flight budgets
	go func() {
		for {
			time.Sleep(10 * time.Millisecond)
			if atomic.LoadInt32(&inCase) == 0 {
				continue
			}
			idx, di := int(atomic.LoadInt64(&curIdx)), int(atomic.LoadInt64(&curDI))
			al := heapAllocs() - atomic.LoadUint64(&curStartA)
			cpu := cpuNow() - time.Duration(atomic.LoadInt64(&curStartCPU))
			if atomic.LoadInt32(&inCase) == 0 || int(atomic.LoadInt64(&curIdx)) != idx || int(atomic.LoadInt64(&curDI)) != di {
				continue
			}
			if al > killAlloc && al < 1<<62 {
				emit(event{T: "viol", Idx: idx, DI: di, Kind: "budget-alloc", N: int(atomic.LoadInt64(&curN)), Alloc: al,
					Msg: fmt.Sprintf("one datagram of %d octets had allocated %d MiB and was still being processed", atomic.LoadInt64(&curN), al>>20)})
				os.Exit(97)
			}
			// parked, not computing: in flight for 3 s of wall time, next to no CPU used, and the goroutine that
			// decodes is waiting on a channel, lock or timer inside collector code - it would wait for ever
			if wall := time.Since(procStart).Nanoseconds() - atomic.LoadInt64(&curWall); wall > int64(3*time.Second) && cpu < 100*time.Millisecond {
				if st, site, blocked := blockedState(); blocked && atomic.LoadInt32(&inCase) == 1 && int(atomic.LoadInt64(&curIdx)) == idx && int(atomic.LoadInt64(&curDI)) == di {
					emit(event{T: "viol", Idx: idx, DI: di, Kind: "blocked", Site: site, N: int(atomic.LoadInt64(&curN)), Alloc: al,
						Msg: fmt.Sprintf("processing one datagram of %d octets has not returned after %.1f s having used %d ms of CPU: the goroutine is parked [%s]", atomic.LoadInt64(&curN), float64(wall)/1e9, cpu.Milliseconds(), st)})
					os.Exit(97)
				}
			}
			if cpu > killCPU {
				emit(event{T: "viol", Idx: idx, DI: di, Kind: "budget-cpu", N: int(atomic.LoadInt64(&curN)), Alloc: al,
					Msg: fmt.Sprintf("one datagram of %d octets consumed %.1f s of CPU and was still being processed (allocated %d MiB)", atomic.LoadInt64(&curN), cpu.Seconds(), al>>20)})
				os.Exit(97)
			}
		}
	}()
	warmUp()
	sum := &csum{Outcomes: map[string]int64{}}
	cpuOver := 0
	var pbuf [8]byte
	var ms runtime.MemStats
	for idx := from; idx < to; idx++ {
		c := fam.gen(seed, thorough, idx)
		binary.BigEndian.PutUint64(pbuf[:], uint64(idx))
		prog.WriteAt(pbuf[:], 0)
		if c == nil {
			continue
		}
		sum.Cases++
		cs := &caches{}
		if c.Proto == "ipfix" {
			cs.ic = ipfix.GetCache("")
		} else if c.Proto == "nf9" {
			cs.nc = netflow9.GetCache("")
		}
		nontrivial := false
		for di, d := range c.Hist {
			if d.Addr == nil && string(d.B) == reloadMarker {
				// a restart: the cache is saved and loaded back, as shutdown() and run() do
				f := a.Rest["progress"] + ".cache"
				if c.Proto == "ipfix" {
					cs.ic.Dump(f)
					cs.ic = ipfix.GetCache(f)
				} else if c.Proto == "nf9" {
					cs.nc.Dump(f)
					cs.nc = netflow9.GetCache(f)
				}
				os.Remove(f)
				continue
			}
			b := cp(d.B) // the decoders may write into the buffer (802.1Q untagging): give them their own
			n := len(b)
			atomic.StoreInt64(&curIdx, int64(idx))
			atomic.StoreInt64(&curDI, int64(di))
			atomic.StoreInt64(&curN, int64(n))
			cpu0 := cpuNow()
			atomic.StoreInt64(&curStartCPU, int64(cpu0))
			atomic.StoreInt64(&curWall, time.Since(procStart).Nanoseconds())
			// exact attribution: ReadMemStats flushes the per-P allocation caches, the cheap metric
			// (used by the watchdog only) accounts small objects late, at span refill
			runtime.ReadMemStats(&ms)
			a0 := ms.TotalAlloc
			atomic.StoreUint64(&curStartA, heapAllocs())
			atomic.StoreInt32(&inCase, 1)
			var got bool
			var recs int
			var et string
			func() {
				defer func() {
					if p := recover(); p != nil {
						atomic.StoreInt32(&inCase, 0)
						st := string(debug.Stack())
						site := panicSite(st)
						emit(event{T: "viol", Idx: idx, DI: di, Kind: "panic", Site: site, N: n,
							Msg: fmt.Sprintf("%v", p)})
						et = "PANIC " + site
					}
				}()
				got, recs, et = process(c.Proto, d.Addr, b, cs)
			}()
			atomic.StoreInt32(&inCase, 0)
			runtime.ReadMemStats(&ms)
			al := ms.TotalAlloc - a0
			cpu := cpuNow() - cpu0
			sum.Datagrams++
			if got {
				sum.Messages++
				nontrivial = true
			}
			if et != "" {
				sum.Errors++
			}
			sum.Outcomes[c.Proto+": "+normErr(et)]++
			bound := uint64(allocBase + allocPerOct*n)
			if r := float64(al) / float64(bound); r > sum.MaxAllocRatio {
				sum.MaxAllocRatio = r
			}
			if n >= 64 {
				if r := float64(al) / float64(n); r > sum.MaxAllocPerOctet {
					sum.MaxAllocPerOctet = r
				}
			}
			if n > 0 {
				if r := float64(recs) / float64(n); r > sum.MaxRecordsPerOctet {
					sum.MaxRecordsPerOctet = r
				}
			}
			if ms := cpu.Milliseconds(); ms > sum.MaxCPUms {
				sum.MaxCPUms = ms
			}
			if al > bound {
				// confirm: one-time costs (reflection caches of encoding/json built on the first
				// encounter of a type) are not the datagram's doing. Re-run the history up to this
				// datagram on fresh caches and keep the smaller measurement.
				if al <= 16<<20 { // nothing of that size is a one-time cache; and never repeat a huge allocation
					if al2 := remeasure(c, di); al2 < al {
						al = al2
					}
				}
				if al > bound {
					emit(event{T: "viol", Idx: idx, DI: di, Kind: "alloc", N: n, Alloc: al, Records: recs,
						Msg: fmt.Sprintf("a datagram of %d octets made the decoder allocate %d octets (bound 32 KiB + 1 KiB per octet = %d; measured twice, smaller value reported)", n, al, bound)})
				} else {
					sum.Outcomes["(alloc measurement not reproduced: one-time cost)"]++
				}
			}
			// CPU: decoding a datagram of at most 64 KiB takes milliseconds (the largest value seen on the unchanged tree
			// is some tens of ms). More than a second of CPU for one datagram is work that follows something else
			// than the octets received - measured twice (process CPU time, not wall clock), smaller value judged.
			if cpu > softCPU {
				c0 := cpuNow()
				func() {
					defer func() { recover() }()
					process(c.Proto, d.Addr, cp(d.B), cs)
				}()
				if c2 := cpuNow() - c0; c2 < cpu {
					cpu = c2
				}
				if cpu > softCPU {
					emit(event{T: "viol", Idx: idx, DI: di, Kind: "budget-cpu", N: n, Alloc: al,
						Msg: fmt.Sprintf("one datagram of %d octets consumed %.1f s of CPU (measured twice, smaller value reported; bound 1 s)", n, cpu.Seconds())})
					cpuOver++
					if cpuOver >= 5 {
						// every further case of this kind costs seconds: the finding is made, the rest of the chunk is left out
						sum.Outcomes["(chunk abandoned after five datagrams over the CPU bound)"]++
						binary.BigEndian.PutUint64(pbuf[:], uint64(to))
						prog.WriteAt(pbuf[:], 0)
						emit(event{T: "sum", Idx: to, Sum: sum})
						os.Exit(0)
					}
				}
			}
			if recs > n {
				emit(event{T: "viol", Idx: idx, DI: di, Kind: "records", N: n, Records: recs,
					Msg: fmt.Sprintf("a datagram of %d octets yielded %d records", n, recs)})
			}
		}
		if nontrivial {
			sum.NonTrivial++
		}
	}
	binary.BigEndian.PutUint64(pbuf[:], uint64(to))
	prog.WriteAt(pbuf[:], 0)
	emit(event{T: "sum", Idx: to, Sum: sum})
	os.Exit(0)
}
