package main

import (
	"encoding/json"
	"fmt"
	"os"
	"sync"

	"verif/harness/mon"
	"verif/harness/wire"
)

var (
	c02Once  sync.Once
	c02Cases []*hcase
)

func u32p(v uint32) *uint32 { return &v }

// buildC02 lists constructions aimed at progress and allocation (DESIGN.md §4 C02).
func buildC02() {
	add := func(p string, desc string, h ...dg) { c02Cases = append(c02Cases, &hcase{p, h, desc}) }
	a4 := []byte{198, 51, 100, 7}
	g := mon.NewRNG(11, "c02", 0)
	tplSet := func(ts ...*wire.Template) wire.Set { return wire.Set{Kind: wire.SetTemplate, Templates: ts} }
	optSet := func(ts ...*wire.Template) wire.Set { return wire.Set{Kind: wire.SetOptTemplate, Templates: ts} }
	enc := func(p string, sets ...wire.Set) []byte {
		b, _ := wire.EncodeFlow(p, []uint32{1, 2, 3, 4}, sets)
		return b
	}
	raw := func(id uint16, body []byte) wire.Set { return wire.Set{Kind: wire.SetRaw, SetID: id, RawBody: body} }

	// (a) v9 flowset ids 2..255 and ipfix set ids 0..255 × body lengths 0..64
	for id := 0; id <= 255; id++ {
		for _, l := range []int{0, 1, 3, 4, 5, 8, 12, 31, 64} {
			add("nf9", fmt.Sprintf("v9 flowset id %d with %d body octets", id, l), dg{a4, enc("nf9", raw(uint16(id), g.Bytes(l)))})
			add("ipfix", fmt.Sprintf("ipfix set id %d with %d body octets", id, l), dg{a4, enc("ipfix", raw(uint16(id), g.Bytes(l)))})
		}
	}
	// (b) degenerate templates, then data sets that use them
	for _, p := range []string{"ipfix", "nf9"} {
		f0 := wire.Field{ID: 82, Len: 0, Type: "string"}
		f1 := wire.Field{ID: 4, Len: 1, Type: "unsigned8"}
		f8 := wire.Field{ID: 1, Len: 8, Type: "unsigned64"}
		type deg struct {
			name string
			t    *wire.Template
		}
		degs := []deg{
			{"zero fields", &wire.Template{ID: 300}},
			{"one zero-length field", &wire.Template{ID: 300, Fields: []wire.Field{f0}}},
			{"three zero-length fields", &wire.Template{ID: 300, Fields: []wire.Field{f0, f0, f0}}},
			{"zero-length among others", &wire.Template{ID: 300, Fields: []wire.Field{f1, f0, f8}}},
			{"options zero-length scope", &wire.Template{ID: 300, Options: true, Scope: []wire.Field{f0}, Fields: []wire.Field{f0}}},
			{"options only scope", &wire.Template{ID: 300, Options: true, Scope: []wire.Field{f1}}},
			{"unknown element len 0", &wire.Template{ID: 300, Fields: []wire.Field{{ID: 31000, Len: 0, Type: "?"}}}},
			{"one-octet records", &wire.Template{ID: 300, Fields: []wire.Field{f1}}},
		}
		for _, dgn := range degs {
			name, t := dgn.name, dgn.t
			set := tplSet(t)
			if t.Options {
				set = optSet(t)
			}
			for _, l := range []int{0, 1, 4, 5, 8, 64, 1400} {
				body := g.Bytes(l)
				add(p, fmt.Sprintf("%s template with %s, then a data set of %d octets", p, name, l),
					dg{a4, enc(p, set)}, dg{a4, enc(p, raw(300, body))})
				add(p, fmt.Sprintf("%s template with %s and data set of %d octets in one message", p, name, l),
					dg{a4, enc(p, set, raw(300, body))})
			}
		}
		// a template id that is in use is redefined to a degenerate definition INSIDE one message, between two
		// of its data sets (anything remembered from the first data set must not survive the redefinition)
		good := &wire.Template{ID: 300, Fields: []wire.Field{f1, f8}}
		for _, dgn := range degs {
			if dgn.t.Options {
				continue
			}
			for _, l := range []int{9, 18, 64, 400} {
				d1 := raw(300, g.Bytes(9*2))
				add(p, fmt.Sprintf("%s data of template 300, then 300 redefined with %s, then %d more octets of 300, all in one message", p, dgn.name, l),
					dg{a4, enc(p, tplSet(good))}, dg{a4, enc(p, d1, tplSet(dgn.t), raw(300, g.Bytes(l)))})
				add(p, fmt.Sprintf("%s template 300, data, redefinition with %s, data: one message", p, dgn.name),
					dg{a4, enc(p, tplSet(good), d1, tplSet(dgn.t), raw(300, g.Bytes(l)))})
			}
		}
		// options template whose scope count exceeds the field count (ipfix) / odd option lengths (v9)
		for sc := 0; sc <= 6; sc++ {
			for fc := 0; fc <= 4; fc++ {
				var b []byte
				if p == "ipfix" {
					b = []byte{0x01, 0x2c, byte(fc >> 8), byte(fc), byte(sc >> 8), byte(sc)}
				} else {
					b = []byte{0x01, 0x2c, 0, byte(sc), 0, byte(fc)}
				}
				for k := 0; k < 5; k++ {
					b = append(b, 0, 4, 0, 1)
				}
				id := uint16(3)
				if p == "nf9" {
					id = 1
				}
				add(p, fmt.Sprintf("%s options template scope %d fields %d, then data", p, sc, fc),
					dg{a4, enc(p, raw(id, b))}, dg{a4, enc(p, raw(300, g.Bytes(40)))})
			}
		}
		// field counts far beyond the datagram
		for _, fc := range []uint16{100, 1000, 0x7fff, 0xffff} {
			b := []byte{0x01, 0x2c, byte(fc >> 8), byte(fc), 0, 4, 0, 1}
			id := uint16(2)
			if p == "nf9" {
				id = 0
			}
			add(p, fmt.Sprintf("%s template announcing %d fields in 8 octets", p, fc), dg{a4, enc(p, raw(id, b))})
		}
		// set length field 0..8 and beyond the datagram
		for _, l := range []int{0, 1, 2, 3, 4, 5, 6, 7, 8, 0x7fff, 0xffff} {
			s := raw(300, g.Bytes(8))
			s.LenDelta = l - 12
			add(p, fmt.Sprintf("%s set with length field %d", p, l), dg{a4, enc(p, s)})
		}
	}
	// (c) variable-length fields: prefixes 0/254/255 and lengths beyond the set
	{
		t := &wire.Template{ID: 301, Fields: []wire.Field{{ID: 82, Len: 65535, Type: "string"}, {ID: 4, Len: 1, Type: "unsigned8"}}}
		for _, body := range [][]byte{{0, 1}, {254}, {255}, {255, 0xff, 0xff}, {255, 0, 0, 1}, {255, 0xff, 0xff, 1, 2, 3}, {3, 1, 2, 3, 9, 255, 0, 0, 7}} {
			add("ipfix", fmt.Sprintf("varlen prefixes %x", body), dg{a4, enc("ipfix", tplSet(t))}, dg{a4, enc("ipfix", raw(301, body))})
		}
		// a non-string element declared with length 65535
		t2 := &wire.Template{ID: 302, Fields: []wire.Field{{ID: 1, Len: 65535, Type: "unsigned64"}}}
		add("ipfix", "unsigned64 declared 65535 long", dg{a4, enc("ipfix", tplSet(t2))}, dg{a4, enc("ipfix", raw(302, g.Bytes(100)))})
	}
	// (h) sampled packet headers (sFlow raw packet header record): IPv6 behind Ethernet whose Next Header starts a
	// chain of extension headers - every Next Header value of interest x every Hdr Ext Len octet 0..255 x what the
	// extension header itself names as next, and IPv4 with every IHL and protocol of interest. A parser that
	// walks such a chain must advance, whatever the length octets say.
	{
		nexts := []byte{0, 43, 44, 50, 51, 60, 135, 139, 140, 59, 6, 17, 58, 41, 255}
		agent := []byte{192, 0, 2, 9}
		mk := func(frame []byte) []byte {
			d := &wire.SFDatagram{Version: 5, Agent: agent, Seq: 1, Samples: []wire.SFSample{{TypeWord: 1, Kind: "flow", Seq: 1,
				Recs: []wire.SFRec{{Format: 1, Kind: "raw", Pkt: &wire.PktModel{HeaderProto: 1}, FrameLen: uint32(len(frame)), Header: frame}}}}}
			return d.Encode()
		}
		for _, n1 := range nexts {
			for _, n2 := range nexts[:9] {
				for l := 0; l < 256; l++ {
					if l > 3 && l%32 != 31 && l%32 != 0 && l != 254 && l != 127 && l != 128 {
						continue // every wrap-around neighbourhood of an 8-bit (l+1)*8, plus the small values
					}
					f := make([]byte, 0, 128)
					f = append(f, 0, 1, 2, 3, 4, 5, 6, 7, 8, 9, 10, 11, 0x86, 0xdd) // Ethernet, IPv6
					f = append(f, 0x60, 0, 0, 0, 0, 72, n1, 64)                     // version, payload length, next header, hop limit
					f = append(f, g.Bytes(32)...)                                   // addresses
					f = append(f, n2, byte(l))                                      // first extension header: next, Hdr Ext Len
					f = append(f, g.Bytes(6)...)                                    //   its first 8 octets
					f = append(f, n2, byte(l), 0, 0, 0, 0, 0, 0)                    // what a zero step would read again
					f = append(f, g.Bytes(48)...)
					add("sflow", fmt.Sprintf("sampled IPv6 header: next header %d, extension header {next %d, length octet %d}", n1, n2, l), dg{a4, mk(f)})
				}
			}
		}
		for ihl := 0; ihl < 16; ihl++ {
			for _, pr := range []byte{0, 1, 4, 6, 17, 41, 47, 50, 51, 255} {
				f := append([]byte{0, 1, 2, 3, 4, 5, 6, 7, 8, 9, 10, 11, 0x08, 0x00, byte(0x40 | ihl), 0, 0, 60, 0, 0, 0, 0, 64, pr, 0, 0}, g.Bytes(72)...)
				add("sflow", fmt.Sprintf("sampled IPv4 header: IHL %d protocol %d", ihl, pr), dg{a4, mk(f)})
			}
		}
	}
	// (g) accumulated state: an exporter that has announced 24 000 templates (three 64 KiB datagrams of one-field
	// templates), then datagrams that are nothing but header-only data sets of ids it never announced - 368 in 1492
	// octets, 16 000 in 64 KiB. The cost of a datagram must follow its own octets, not what the cache has grown to.
	for _, p := range []string{"ipfix", "nf9"} {
		var hist []dg
		id := 256
		for d := 0; d < 3; d++ {
			var ts []*wire.Template
			for k := 0; k < 8000; k++ {
				ts = append(ts, &wire.Template{ID: uint16(id), Fields: []wire.Field{{ID: 4, Len: 1, Type: "unsigned8"}}})
				id++
			}
			hist = append(hist, dg{a4, enc(p, tplSet(ts...))})
		}
		for _, n := range []int{368, 16000} {
			var sets []wire.Set
			for k := 0; k < n; k++ {
				sets = append(sets, raw(uint16(40000+k%20000), nil))
			}
			h := append(append([]dg{}, hist...), dg{a4, enc(p, sets...)})
			add(p, fmt.Sprintf("%s: 24000 templates announced, then a datagram of %d header-only data sets of unknown templates", p, n), h...)
		}
	}
	// (d) maximal legitimate record counts: 65507-octet datagrams packed with 1-octet records
	for _, p := range []string{"ipfix", "nf9"} {
		t := &wire.Template{ID: 303, Fields: []wire.Field{{ID: 4, Len: 1, Type: "unsigned8"}}}
		var sets []wire.Set
		sets = append(sets, tplSet(t))
		sets = append(sets, raw(303, g.Bytes(65507-20-12-4-8)))
		b := enc(p, sets...)
		add(p, fmt.Sprintf("%s %d-octet datagram packed with 1-octet records", p, len(b)), dg{a4, b})
		t4 := &wire.Template{ID: 304, Fields: []wire.Field{{ID: 8, Len: 4, Type: "ipv4Address"}}}
		b = enc(p, tplSet(t4), raw(304, g.Bytes(65000)))
		add(p, fmt.Sprintf("%s %d-octet datagram packed with 4-octet address records", p, len(b)), dg{a4, b})
		ts := &wire.Template{ID: 305, Fields: []wire.Field{{ID: 82, Len: 65535, Type: "string"}}}
		if p == "ipfix" {
			b = enc(p, tplSet(ts), raw(305, make([]byte, 65000)))
			add(p, fmt.Sprintf("ipfix %d-octet datagram packed with empty variable-length strings", len(b)), dg{a4, b})
		}
	}
	add("nf5", "v5 30 flows", dg{a4, wire.GenNf5(g, 5, 30, 0)})
	add("nf5", "v5 30 flows + 64000 trailing octets", dg{a4, wire.GenNf5(g, 5, 30, 64000)})
	add("nf5", "v5 count 65535", dg{a4, wire.GenNf5(g, 5, 65535, 0)})
	// (e) sFlow counts and lengths
	for _, n := range []uint32{0, 1, 2, 100, 0xffff, 0x7fffffff, 0x80000000, 0xffffffff} {
		d := &wire.SFDatagram{Version: 5, Agent: []byte{1, 2, 3, 4}, SamplesNoOverride: u32p(n),
			Samples: []wire.SFSample{wire.GenSFSample(g, "counter", false)}}
		add("sflow", fmt.Sprintf("sflow SamplesNo %d with one sample present", n), dg{a4, d.Encode()})
		for _, k := range []string{"flow", "counter"} {
			s := wire.GenSFSample(g, k, false)
			s.RecsNoOverride = u32p(n)
			d2 := &wire.SFDatagram{Version: 5, Agent: []byte{1, 2, 3, 4}, Samples: []wire.SFSample{s, wire.GenSFSample(g, "counter", false)}}
			add("sflow", fmt.Sprintf("sflow %s sample RecordsNo %d with %d records present", k, n, len(s.Recs)), dg{a4, d2.Encode()})
		}
		// unknown sample / record with a huge declared length
		s := wire.SFSample{TypeWord: 77, Kind: "unknown", Opaque: g.Bytes(8), LenOverride: u32p(n)}
		d3 := &wire.SFDatagram{Version: 5, Agent: []byte{1, 2, 3, 4}, Samples: []wire.SFSample{s, wire.GenSFSample(g, "counter", false)}}
		add("sflow", fmt.Sprintf("sflow unknown sample declared length %d", n), dg{a4, d3.Encode()})
		fs := wire.GenSFSample(g, "flow", false)
		fs.Recs = []wire.SFRec{{Format: 999, Kind: "unknown", Opaque: g.Bytes(8), LenOverride: u32p(n)}, wire.GenSFRecFlow(g, "extswitch")}
		d4 := &wire.SFDatagram{Version: 5, Agent: []byte{1, 2, 3, 4}, Samples: []wire.SFSample{fs}}
		add("sflow", fmt.Sprintf("sflow unknown record declared length %d", n), dg{a4, d4.Encode()})
	}
	for _, hl := range []uint32{0, 1, 1499, 1500, 1501, 0xffff, 0x7fffffff, 0xfffffffc, 0xffffffff} {
		// raw header record whose header-length word lies
		body := []byte{0, 0, 0, 1, 0, 0, 0, 100, 0, 0, 0, 0, byte(hl >> 24), byte(hl >> 16), byte(hl >> 8), byte(hl)}
		body = append(body, g.Bytes(64)...)
		fs := wire.SFSample{TypeWord: 1, Kind: "flow", Seq: 1, Recs: []wire.SFRec{{Format: 1, Kind: "unknown", Opaque: body}}}
		d := &wire.SFDatagram{Version: 5, Agent: []byte{1, 2, 3, 4}, Samples: []wire.SFSample{fs}}
		add("sflow", fmt.Sprintf("sflow sampled header length word %d with 64 octets present", hl), dg{a4, d.Encode()})
	}
	// (f) declared lengths within one datagram size of 2^32: position arithmetic in 32 bits wraps, and a reader that
	// is sent "forward" by such a length lands on or before the sample it has just read - once per SamplesNo
	for _, cnt := range []uint32{200000, 0xffffffff} {
		for k := uint32(1); k <= 72; k++ {
			if k > 8 && k%4 != 0 {
				continue
			}
			l := uint32(0) - k
			for _, kind := range []string{"flow", "counter", "unknown", "enterprise"} {
				var s wire.SFSample
				switch kind {
				case "flow":
					s = wire.SFSample{TypeWord: 1, Kind: "flow", Seq: 1}
				case "counter":
					s = wire.SFSample{TypeWord: 2, Kind: "counter", Seq: 1}
				case "unknown":
					s = wire.SFSample{TypeWord: 77, Kind: "unknown", Opaque: g.Bytes(8)}
				default:
					s = wire.SFSample{TypeWord: 4413<<12 | 1, Kind: "unknown", Opaque: g.Bytes(8)}
				}
				s.LenOverride = u32p(l)
				d := &wire.SFDatagram{Version: 5, Agent: []byte{1, 2, 3, 4}, SamplesNoOverride: u32p(cnt), Samples: []wire.SFSample{s}}
				add("sflow", fmt.Sprintf("sflow %s sample declared length 2^32-%d, SamplesNo %d", kind, k, cnt), dg{a4, d.Encode()})
			}
		}
	}
	// many tiny samples: maximal legitimate sample count for the size
	{
		d := &wire.SFDatagram{Version: 5, Agent: []byte{1, 2, 3, 4}}
		for len(d.Samples) < 3000 {
			d.Samples = append(d.Samples, wire.SFSample{TypeWord: 2, Kind: "counter", Seq: uint32(len(d.Samples))})
		}
		b := d.Encode()
		add("sflow", fmt.Sprintf("sflow %d-octet datagram of %d empty counter samples", len(b), len(d.Samples)), dg{a4, b})
		d2 := &wire.SFDatagram{Version: 5, Agent: []byte{1, 2, 3, 4}}
		for len(d2.Samples) < 600 {
			s := wire.GenSFSample(g, "flow", false)
			s.Recs = []wire.SFRec{wire.GenSFRecFlow(g, "extswitch")}
			d2.Samples = append(d2.Samples, s)
		}
		b = d2.Encode()
		add("sflow", fmt.Sprintf("sflow %d-octet datagram of %d flow samples", len(b), len(d2.Samples)), dg{a4, b})
	}
}

func famC02() family {
	get := func() []*hcase { c02Once.Do(buildC02); return c02Cases }
	return family{"c02", func(bool) int { return len(get()) }, func(_ int64, _ bool, idx int) *hcase { return get()[idx] }}
}

func allFamilies() []family {
	return []family{famC02(), famTrunc(), famField(), famSetID(), famPktHdr(), famExtRouter(), famHistory(), famRestart(), famRandom(), famReplay()}
}

// famReplay is the one-case family used by --replay: the child loads the case from the replay file.
func famReplay() family {
	return family{"replay", func(bool) int { return 0 }, func(_ int64, _ bool, idx int) *hcase {
		if replayCaseG != nil {
			return replayCaseG
		}
		for i, a := range os.Args {
			if a == "--replayfile" && i+1 < len(os.Args) {
				d, err := mon.LoadReplay(os.Args[i+1])
				if err != nil {
					return nil
				}
				var rc replayCase
				json.Unmarshal(d.Case, &rc)
				c := &hcase{Proto: rc.Proto, Desc: rc.Desc}
				for _, h := range rc.Hist {
					c.Hist = append(c.Hist, dg{mon.UnHex(h.Addr), mon.UnHex(h.Dgram)})
				}
				replayCaseG = c
				return c
			}
		}
		return nil
	}}
}
