package main

import (
	"sync"

	"verif/harness/mon"
	"verif/harness/wire"
)

// dg is one datagram of a history.
type dg struct {
	Addr []byte `json:"addr"`
	B    []byte `json:"dgram"`
}

// hcase is one hostile case: a history of datagrams processed on one fresh cache.
type hcase struct {
	Proto string
	Hist  []dg
	Desc  string
}

// seed is a well-formed exporter history: Tpl (may be nil) announces templates, Data uses them.
type seed struct {
	Addr []byte
	Tpl  []byte
	Data []byte
}

var protos = []string{"ipfix", "nf9", "nf5", "sflow"}

var (
	seedOnce sync.Once
	seedTab  map[string][]seed
	snapTab  []wire.Elem
)

// fixed exporter per protocol so that histories share cache keys
var fixedAddr = map[string][]byte{"ipfix": {192, 0, 2, 1}, "nf9": {0, 0, 0, 0, 0, 0, 0, 0, 0, 0, 0xff, 0xff, 192, 0, 2, 9}}

const nSeeds = 40

// seeds are built from a fixed PRNG seed (not VERIF_SEED): the deterministic sweeps ignore the run seed.
func seeds(proto string) []seed {
	seedOnce.Do(func() {
		var err error
		snapTab, err = wire.LoadSnapshot(mon.Root())
		if err != nil {
			panic(err)
		}
		seedTab = map[string][]seed{}
		for _, p := range []string{"ipfix", "nf9"} {
			for i := 0; i < nSeeds; i++ {
				g := mon.NewRNG(7, "seed"+p, i)
				o := wire.GenOpts{Elems: snapTab, Varlen: p == "ipfix", Reduced: true, Options: true, MaxFields: 6, MaxStrLen: 16}
				if i%5 == 4 {
					o.ForceTypes = []string{"string", "octetArray", "macAddress", "ipv6Address"}
				}
				var fc *wire.FlowCase
				for {
					fc = wire.GenFlowCase(g, p, o)
					if len(fc.Dgrams) == 2 && len(fc.Expect[1]) > 0 && len(fc.Dgrams[1]) < 400 {
						break
					}
				}
				// ids from a small pool so that histories overlap: rewrite template ids to 256..259
				// (regenerate by re-encoding the model with new ids)
				for ti, t := range fc.Templates {
					t.ID = uint16(256 + (i+ti)%4)
				}
				for di := range fc.SetsPer {
					for si := range fc.SetsPer[di] {
						s := &fc.SetsPer[di][si]
						if s.Kind == wire.SetData {
							s.SetID = s.Tpl.ID
						}
					}
				}
				tb, _ := wire.EncodeFlow(p, fc.HdrRaw[0], fc.SetsPer[0])
				db, _ := wire.EncodeFlow(p, fc.HdrRaw[1], fc.SetsPer[1])
				seedTab[p] = append(seedTab[p], seed{Addr: fixedAddr[p], Tpl: tb, Data: db})
			}
		}
		for i := 0; i < nSeeds; i++ {
			g := mon.NewRNG(7, "seednf5", i)
			cnt := 1 + i%30
			seedTab["nf5"] = append(seedTab["nf5"], seed{Addr: []byte{10, 0, 0, byte(i)}, Data: wire.GenNf5(g, 5, cnt, (i%3)*7)})
		}
		for i := 0; i < nSeeds; i++ {
			g := mon.NewRNG(7, "seedsf", i)
			var d *wire.SFDatagram
			for {
				d = wire.GenSFDatagram(g, true)
				if len(d.Samples) >= 1 && len(d.Encode()) < 900 {
					break
				}
			}
			if i < 12 {
				// make sure each record kind leads a seed at least once
				kinds := []string{"raw", "extswitch", "extrouter"}
				s := wire.GenSFSample(g, "flow", true)
				s.Recs = []wire.SFRec{wire.GenSFRecFlow(g, kinds[i%3])}
				if i >= 6 {
					s = wire.GenSFSample(g, "counter", true)
					l := &wire.CounterLayouts[i-6]
					s.Recs = []wire.SFRec{{Format: l.Format, Kind: "counter", Layout: l, Vals: make([]uint64, len(l.Names))}}
				}
				d.Samples = append([]wire.SFSample{s}, d.Samples...)
				if len(d.Samples) > 3 {
					d.Samples = d.Samples[:3]
				}
			}
			seedTab["sflow"] = append(seedTab["sflow"], seed{Addr: []byte{10, 9, 8, 7}, Data: d.Encode()})
		}
	})
	return seedTab[proto]
}

func (s seed) hist(proto string, data []byte) []dg {
	var h []dg
	if s.Tpl != nil {
		h = append(h, dg{s.Addr, s.Tpl})
	}
	return append(h, dg{s.Addr, data})
}

func cp(b []byte) []byte { return append([]byte{}, b...) }

var b16 = []uint16{0, 1, 2, 3, 4, 5, 7, 8, 0x7fff, 0x8000, 0x8001, 0xfffe, 0xffff}
var b32 = []uint32{0, 1, 2, 3, 4, 7, 8, 9, 11, 12, 15, 16, 1500, 1501, 0x7fffffff, 0x80000000, 0xfffffff8, 0xfffffffb, 0xfffffffc, 0xffffffff}

func put16(b []byte, off int, v uint16) { b[off], b[off+1] = byte(v>>8), byte(v) }
func get16(b []byte, off int) uint16    { return uint16(b[off])<<8 | uint16(b[off+1]) }
func put32(b []byte, off int, v uint32) {
	b[off], b[off+1], b[off+2], b[off+3] = byte(v>>24), byte(v>>16), byte(v>>8), byte(v)
}
func get32(b []byte, off int) uint32 {
	return uint32(b[off])<<24 | uint32(b[off+1])<<16 | uint32(b[off+2])<<8 | uint32(b[off+3])
}
