#!/usr/bin/env python3
"""Regenerates /verif/MANIFEST.json from the table below (kept in one place so that it stays valid)."""
import json, os, subprocess
ROOT = os.path.dirname(os.path.dirname(os.path.abspath(__file__)))
props = [json.loads(l) for l in open(os.path.join(ROOT, 'properties.jsonl'))]
ids = [p['id'] for p in props]

# id -> (engine, category, technique, text, note, design_ref)
C = {}
def reg(i, engine, cat, tech, text, note, ref):
    C[i] = dict(engine=engine, cat=cat, tech=tech, text=text, note=note, ref=ref)

exec(open(os.path.join(ROOT, 'tools', 'claims.py')).read())

hooks_commits = []
try:
    out = subprocess.run(['git', '-C', '/repo', 'log', '--format=%H %s'], capture_output=True, text=True).stdout
    for l in out.splitlines():
        h, s = l.split(' ', 1)
        if s.startswith('verif hook:'):
            hooks_commits.append(h)
except Exception:
    pass

m = {
 "version": 1,
 "setup_cmd": "./check --setup",
 "hooks": {
  "guard": "verif",
  "enable": "go test -tags verif -c ./vflow (test-only scenario driver vflow/verif_driver_test.go in package main); the library packages are used untagged through a replace directive",
  "baseline_off_cmd": "cd /repo && go test -vet=off -count=1 -timeout 25m ./...",
  "source_commits": hooks_commits,
  "add_only": True
 },
 "engines": [],
 "checks": [],
 "notes": "Runtime monitoring: every check runs the real vflow code (libraries through a Go replace directive onto /repo's working tree, the pipeline through a tagged test driver, the binary itself end to end) under generated, hostile and stress workloads with oracles over what was observed. Exit 0 held / 1 VIOLATION / 3 harness error. VERIF_SEED and VERIF_TIER are honoured. known_findings.json lists repaired (fixed:) and recorded (known:) defects.",
 "not_applicable": []
}
engines = {}
for i in ids:
    if i in C:
        c = C[i]
        m["checks"].append({
            "property_id": i,
            "quick_cmd": "./check %s --tier quick" % i,
            "thorough_cmd": "./check %s --tier thorough" % i,
            "evidence_file": "/verif/evidence/%s.json" % i,
            "replay_cmd_template": "./check %s --replay {path}" % i,
            "engine": c['engine'],
            "level_claimed": {"category": c['cat'], "text": c['text'], "design_ref": c['ref']},
            "level_note": c['note'],
            "technique": c['tech'],
        })
        engines.setdefault(c['engine'].split('/')[0], []).append(i)
    else:
        m["not_applicable"].append({"property_id": i, "reason": "check not built yet (construction in progress; DESIGN.md section 7 gives the order)"})
for e, ps in engines.items():
    m["engines"].append({"name": e, "path": "harness/cmd/" + e, "serves_properties": ps, "kind_free_text": "Go binary built from /verif/harness against /repo's working tree; runtime monitor with its own oracle"})
json.dump(m, open(os.path.join(ROOT, 'MANIFEST.json'), 'w'), indent=1, ensure_ascii=False)
print("claimed:", sorted(C), "not claimed:", [i for i in ids if i not in C])
