#!/usr/bin/env bash
# tools/sweep.sh <tier> <seed...>: run every check at the given seeds, one line per run (exit code, SUMMARY of the last tier, alarms)
tier="$1"; shift
cd /verif || exit 3
for seed in "$@"; do
  for i in 01 02 03 04 05 06 07 08 09 10 11 12 13 14 15 16 17 18 19 20; do
    t0=$(date +%s)
    out=$(env VERIF_SEED=$seed ${NOEV:+VERIF_NO_EVIDENCE=1} ./check C$i --tier "$tier" 2>&1); rc=$?
    t1=$(date +%s)
    echo "seed=$seed C$i rc=$rc wall=$((t1-t0))s viol=$(echo "$out" | grep -a -c '^VIOLATION') inconcl=$(echo "$out" | grep -a -c '^INCONCLUSIVE') harness=$(echo "$out" | grep -a -c 'HARNESS-ERROR')"
    if [ $rc -ne 0 ]; then echo "$out" | grep -a -E '^(VIOLATION|INCONCLUSIVE|HARNESS-ERROR)|violated:' | head -8 | cut -c1-300; fi
    if [ "$tier" = thorough ]; then mkdir -p evidence/thorough; cp "evidence/C$i.json" "evidence/thorough/C$i.json" 2>/dev/null; fi
  done
done
