#!/usr/bin/env python3
"""Replace the status table of DESIGN.md section 0 by the one generated from the current evidence files."""
import os, re, subprocess
ROOT = os.path.dirname(os.path.dirname(os.path.abspath(__file__)))
p = os.path.join(ROOT, 'DESIGN.md')
s = open(p).read()
table = subprocess.run(['python3', os.path.join(ROOT, 'tools', 'status_table.py')], capture_output=True, text=True, check=True).stdout
a = s.index('| ID | engine')
b = s.index('### 0.1 Deviations from the plan')
s = s[:a] + table.rstrip('\n') + '\n\n' + s[b:]
open(p, 'w').write(s)
print('status table refreshed (%d rows)' % (table.count('\n') - 2))
