#!/usr/bin/env bash
# tools/round.sh <suffix>: ingest every finished sub-agent delivery of the round (/tmp/wt/C??/OUT/meta.json) that is
# not in seeded/ yet, then evaluate every ingested-but-not-evaluated seed of that suffix against the current checks.
suf="$1"; cd /verif || exit 3
for wt in /tmp/wt/C??; do
  id=$(basename "$wt")
  [ -f "$wt/OUT/meta.json" ] || continue
  [ -d "seeded/$id-$suf" ] && continue
  tools/ingest_seed.sh "$id" "$suf" 2>&1 | tail -1
done
todo=()
for d in seeded/C??-"$suf"; do
  [ -f "$d/meta.json" ] || continue
  grep -q '"detection"' "$d/meta.json" || todo+=("$d")
done
[ ${#todo[@]} -gt 0 ] && timeout 3400 python3 tools/seed_eval.py "${todo[@]}" 2>&1 | grep -E "CAUGHT|missed|does not apply|Traceback"
