#!/usr/bin/env bash
# tools/ingest_seed.sh <ID> <suffix>: confirm a sub-agent's seeded change in its scratch worktree
# /tmp/wt/<ID> (demo fails with the patch, passes without; patch applies to a clean tree) and copy
# patch.diff, demo/ and the agent's meta.json (as agent_meta.json) to seeded/<ID>-<suffix>/.
export GOFLAGS=-mod=mod GOPROXY=off GOSUMDB=off GOTOOLCHAIN=local
id="$1"; suf="$2"; wt="/tmp/wt/$id"; out="/verif/seeded/$id-$suf"
[ -f "$wt/OUT/patch.diff" ] && [ -f "$wt/OUT/meta.json" ] || { echo "$id: deliverables missing"; exit 3; }
cmd=$(python3 -c "import json;print(json.load(open('$wt/OUT/meta.json'))['demo_command'])")
cd "$wt" || exit 3
git checkout -q -- . ; git clean -fdq -e OUT
git apply --check OUT/patch.diff || { echo "$id: patch does not apply to the clean tree"; exit 3; }
timeout 900 bash -c "$cmd" > OUT/demo/without_patch.log 2>&1; r0=$?
git apply OUT/patch.diff
timeout 900 bash -c "$cmd" > OUT/demo/with_patch.log 2>&1; r1=$?
git status --short | grep -v OUT/ | sed "s/^/$id worktree: /"
echo "$id: demo without patch rc=$r0, with patch rc=$r1"
if [ $r0 -ne 0 ] || [ $r1 -eq 0 ]; then echo "$id: NOT CONFIRMED"; exit 1; fi
rm -rf "$out"; mkdir -p "$out"
cp OUT/patch.diff "$out/"; cp -r OUT/demo "$out/demo"; cp OUT/meta.json "$out/agent_meta.json"
python3 - "$out" "$r0" "$r1" <<'EOF'
import json, sys
out, r0, r1 = sys.argv[1], int(sys.argv[2]), int(sys.argv[3])
json.dump({'confirmed_by_me': {'demo_exit_without_patch': r0, 'demo_exit_with_patch': r1}}, open(out + '/meta.json', 'w'), indent=1)
EOF
echo "$id: confirmed -> $out"
