#!/usr/bin/env bash
# tools/try_seed.sh <seed dir> <check id...> : apply a seeded change to /repo, run checks, restore.
export GOFLAGS=-mod=mod GOPROXY=off GOSUMDB=off GOTOOLCHAIN=local
d="$1"; shift
cd /repo || exit 3
if [ -n "$(git status --porcelain)" ]; then echo "/repo is not clean"; exit 3; fi
git apply "$d/patch.diff" || { echo "PATCH DOES NOT APPLY"; exit 3; }
trap 'git -C /repo checkout -- . ; git -C /repo clean -fdq' EXIT
go build ./... || { echo "DOES NOT BUILD"; exit 3; }
t=$(go test -vet=off -count=1 ./... 2>&1 | grep -E "^(FAIL|---|panic)" | head -3)
echo "baseline: ${t:-all ok}"
cd /verif
for id in "$@"; do
  out=$(VERIF_NO_EVIDENCE=1 timeout 1500 ./check "$id" ${TIER:+--tier $TIER} 2>&1); rc=$?
  echo "check $id rc=$rc $(echo "$out" | grep -a SUMMARY | sed 's/.*violations/violations/')"
  echo "$out" | grep -a "violated:" | head -4
done
