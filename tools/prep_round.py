#!/usr/bin/env python3
"""tools/prep_round.py <letters-of-earlier-rounds>: reset the scratch worktrees /tmp/wt/C?? and write OUT/PROPERTY.txt,
OUT/ALREADY_DONE.txt (summaries of the earlier seeds) and OUT/TASK.txt (the unhinted task) for a new seeding round."""
import json, os, subprocess, shutil, sys
prev = sys.argv[1]
words = {6: 'six', 7: 'seven', 8: 'eight', 9: 'nine', 10: 'ten', 11: 'eleven', 12: 'twelve'}
n = words[len(prev)]
props = {}
for l in open('/verif/properties.jsonl'):
    d = json.loads(l); props[d['id']] = d
tmpl = open('/verif/tools/seed_task_template.txt').read().replace('@N@', n)
for p in sorted(props):
    wt = '/tmp/wt/' + p
    if not os.path.isdir(wt): continue
    subprocess.run('git checkout -q -- . && git clean -fdq', shell=True, cwd=wt)
    shutil.rmtree(wt + '/OUT', ignore_errors=True)
    os.makedirs(wt + '/OUT')
    d = props[p]
    open(wt + '/OUT/PROPERTY.txt', 'w').write('ID: %s\nTitle: %s\nStatement: %s\nQuantifier: %s\nAnchored in files: %s\n' % (p, d['title'], d['statement'], d['quantifier']['text'], ', '.join(d['anchors']['files'])))
    s = '%s breaking changes were already produced by other engineers; yours must use a DIFFERENT mechanism and touch a different function or aspect than all of them:\n' % n.capitalize()
    for x in prev:
        m = json.load(open('/verif/seeded/%s-%s/agent_meta.json' % (p, x)))
        s += '- %s\n  (it needed: %s)\n' % (m['summary'], m['needs_to_manifest'])
    open(wt + '/OUT/ALREADY_DONE.txt', 'w').write(s)
    open(wt + '/OUT/TASK.txt', 'w').write(tmpl.replace('@ID@', p))
print('prepared', len(props), 'worktrees for the round after', prev)
