#!/usr/bin/env python3
"""Print the status table of DESIGN.md section 0 from the evidence files of the last runs.

Every number in the table is read from evidence/<ID>.json (written by the engines themselves);
nothing is typed in by hand. Usage: python3 tools/status_table.py > /tmp/table.md
"""
import json, os, sys

ROOT = os.path.dirname(os.path.dirname(os.path.abspath(__file__)))
SKIP = {"rule", "samples", "further_tiers", "race_reports_by_frames", "race_reports_by_attribution", "outcomes", "histogram"}


def nums(cov, limit):
    out = []
    for k, v in cov.items():
        if k in SKIP or not isinstance(v, (int, float)) or isinstance(v, bool):
            continue
        if v == 0:
            continue
        out.append((k, v))
    # the engines' own headline counters first
    head = [x for x in out if x[0] in ("evaluations", "distinct_configurations")]
    rest = sorted([x for x in out if x not in head and x[0] != "distinct_nontrivial"], key=lambda x: -x[1])
    return head + rest[:limit]


def fmt(v):
    if isinstance(v, float):
        return ("%.3g" % v)
    if v >= 100000:
        return "%.1fx10^%d" % (v / 10 ** (len(str(v)) - 1), len(str(v)) - 1)
    return str(v)


seed = json.load(open(os.path.join(ROOT, "evidence", "C01.json"))).get("seed", "?")
print("| ID | engine (first tier) + further tiers | engine wall | what the quick run observed (seed %s) |" % seed)
print("|---|---|---|---|")
for i in range(1, 21):
    pid = "C%02d" % i
    p = os.path.join(ROOT, "evidence", pid + ".json")
    if not os.path.exists(p):
        continue
    e = json.load(open(p))
    cov = e.get("coverage", {})
    ft = cov.get("further_tiers", {}) or {}
    engines = "`%s`" % e.get("engine", "?")
    wall = float(e.get("wall_s", 0))
    obs = ", ".join("%s %s" % (k.replace("_", " "), fmt(v)) for k, v in nums(cov, 4))
    for name, c in ft.items():
        engines += " + `%s`" % name
        if isinstance(c, dict):
            wall += float(c.get("wall_s", 0) or 0)
            extra = ", ".join("%s %s" % (k.replace("_", " "), fmt(v)) for k, v in nums(c, 3))
            if extra:
                obs += "; *%s*: %s" % (name, extra)
    print("| %s | %s | %d s | %s |" % (pid, engines, round(wall), obs))
